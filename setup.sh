#!/bin/bash
# Offline setup: nothing is fetched or cached; the checks rebuild every goto object
# from /repo's working tree on each run.  This only verifies the tool chain and
# makes sure the generated config.h of the real build exists.
set -e
for t in cbmc goto-cc gcc python3; do command -v $t >/dev/null || { echo "missing tool: $t"; exit 1; }; done
if [ ! -f /repo/_build/config.h ]; then
  cmake -G Ninja -S /repo -B /repo/_build >/dev/null
fi
test -f /repo/_build/config.h
mkdir -p /verif/evidence /verif/replays
echo "setup ok: $(cbmc --version)"
