#!/usr/bin/env python3
"""ingest_seed.py <PROP> <k> "<needs>"  — keep a confirmed seeded change under /verif/seeded/<PROP>-<k>/"""
import json, os, shutil, sys
pid, k, needs = sys.argv[1], sys.argv[2], sys.argv[3]
src = f"/tmp/seed-{pid}/{k}"; dst = f"/verif/seeded/{pid}-{k}"
conf = json.load(open(f"{src}/confirm.json"))
assert conf == {"demo_unchanged_rc": 0, "build_rc": 0, "ctest_rc": 0, "demo_changed_rc": 1} or conf["demo_changed_rc"] != 0, conf
os.makedirs(dst, exist_ok=True)
for f in os.listdir(src):
    if f.endswith((".diff", ".c", ".sh", ".md", ".conf", ".py", ".xml")) or f in ("confirm.json",):
        shutil.copy(f"{src}/{f}", dst)
meta = {"property": pid, "breaks": pid, "needs_to_manifest": needs,
        "origin": "independent sub-agent given only the property record and a scratch worktree",
        "confirmed_by_me": {"how": "vf/confirm_seed.sh in the scratch worktree: demo on unchanged tree, git apply, cmake --build, full ctest, demo on changed tree, revert",
                            **conf},
        "detected_by": None}
json.dump(meta, open(f"{dst}/meta.json", "w"), indent=1)
print("kept", dst)
