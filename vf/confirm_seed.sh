#!/bin/bash
# confirm_seed.sh <PROP> <k> : independently confirm a sub-agent's seeded change in its scratch worktree
#   (1) unchanged tree: demo passes   (2) patch applies, tree builds, ctest passes   (3) demo fails with the patch
# writes /tmp/seed-<PROP>/<k>/confirm.log and confirm.json
P=$1; K=$2; WT=/tmp/wt-$P; S=/tmp/seed-$P/$K; L=$S/confirm.log
exec >"$L" 2>&1
set -x
cd $WT || exit 9
git checkout -- . ; git status --short | grep -v '^??'
cmake --build _build -j8 >/dev/null || { echo BUILD0_FAIL; exit 9; }
bash $S/demo.sh $WT $WT/_build; D0=$?
git apply $S/patch.diff || { echo APPLY_FAIL; exit 9; }
cmake --build _build -j8 >/dev/null; B1=$?
ctest --test-dir _build -j6 --timeout 900 > $S/confirm-ctest.log 2>&1; T1=$?
tail -5 $S/confirm-ctest.log
bash $S/demo.sh $WT $WT/_build; D1=$?
git checkout -- .
cmake --build _build -j8 >/dev/null
echo "{\"demo_unchanged_rc\": $D0, \"build_rc\": $B1, \"ctest_rc\": $T1, \"demo_changed_rc\": $D1}" > $S/confirm.json
cat $S/confirm.json
