"""C20 — object-path handlers are chosen by exact path, then nearest fallback."""
META = {
    "explanation": "The real dbus-object-tree.c is driven through its real register / unregister / dispatch API by 12 scripted histories (concrete paths out of a universe of 6, "
                   "symbolic fallback flags) followed by a dispatch to a symbolic path out of 9 (depth <= 3) with symbolic handler answers; a set-of-registrations reference decides success of each registration, the "
                   "sequence of handlers offered the call, the result and the found_object flag.",
    "outside": ["path elements longer than one byte", "histories other than the 12 scripted ones (a symbolic-history encoding ran out of memory at K=1)", "more than 4 children per node (capacity model of the child array)",
                "built-in Introspect / Peer replies", "the error text built in dbus_connection_dispatch"],
}
def jobs(tier):
    J = []
    names = ["empty", "a", "a_b", "a+a_b", "a_b+a_c+b", "root+a_b", "occupied", "leaf-removed", "parent-unregistered", "branch-pruned", "unordered+sibling-removed", "root-unregistered"]
    qnames = ["/", "/a", "/a/b", "/a/c", "/b", "/a/b/c", "/a/b/d", "/c", "/b/a"]
    for scn, nm in enumerate(names):
      for qp, qn in enumerate(qnames):
        if tier == "quick" and qp in (3, 8): continue      # quick: 7 of the 9 query paths
        J.append(Job(name=f"scenario.{scn:02d}.{nm}.q{qp}", group="C20.scenarios", harness="harness/C20_objtree.c", defines={"SCN": scn, "QP": qp}, real=["dbus/dbus-list.c"],
                     env=["assert_stubs.c", "pool_lock.c"], checks="assert", unwind=11, unwindset=["strcmp.0:48"], timeout=600, mem_gb=12,
                     encodes=["_dbus_object_tree_register", "_dbus_object_tree_unregister_and_unlock", "_dbus_object_tree_dispatch_and_unlock", "find_subtree_recurse",
                              "find_handler", "unregister_and_free_path_recurse", "attempt_child_removal", "_dbus_object_tree_get_user_data_unlocked"],
                     stubs=["dbus_malloc0/realloc = typed, fixed-capacity (4) child arrays", "handlers = ghost call log with symbolic HANDLED/NOT_YET_HANDLED", "connection lock = no-op"],
                     bounds=f"scripted history '{nm}' (concrete paths, symbolic fallback flags), then dispatch to {qn} with every handler's answer symbolic",
                     shape=f"history {nm}, call to {qn}", cost=1 + scn // 4))
    return J
