"""C19 — auto-started services: activation helper decision chain + bus-side skeletons (join / start once, flush in order, failure fan-out)."""
META = {
    "explanation": "The real decision chain of bus/activation-helper.c is symbolically executed with an arbitrary bus name and an arbitrary service-file content (which keys exist, "
                   "Name= value): the exec stub is reached at most once and only when the name is valid and the file declares exactly that name with Exec and User.",
    "outside": ["timeouts, babysitter / process exit handling, systemd activation, more than 2 held messages", "service-directory lookup, configuration parsing, environment clearing, user switching (body-less stubs)", "babysitter / process behaviour"],
}
def jobs(tier):
    J = [Job(name="a.helper_chain", group="C19.a", harness="harness/C19_helper.c", real=["dbus/dbus-marshal-validate.c", "dbus/dbus-string.c"], env=["assert_stubs.c", "mem.c"],
                checks="assert", unwind=10, unwindset=["strcmp.0:64", "strlen.0:24"], timeout=600,
                remove_bodies=["desktop_file_for_name", "get_correct_parser", "check_dbus_user", "clear_environment", "switch_user"],
                encodes=["run_launch_helper", "check_bus_name", "_dbus_validate_bus_name", "launch_bus_name", "get_parameters_for_service", "check_service_name", "exec_for_correct_user"],
                stubs=["desktop file = symbolic key presence and Name value", "execv = ghost counter", "lookup / config / environment / user switch = body-less (arbitrary outcome)"],
                bounds="bus name and file Name value: any bytes, length 0..6; presence of Name / Exec / User symbolic", shape="helper chain")]
    for op, nm, shapes in ((0, "activate", ((0, 0), (1, 0), (1, 1), (1, 2))), (1, "flush", ((1, 0), (1, 1), (1, 2))), (2, "failure_fanout", ((1, 0), (1, 1), (1, 2)))):
        for pend, e in shapes:
            J.append(Job(name=f"bcd.{nm}.P{pend}E{e}", group="C19.bus", harness="harness/C19_activation.c", defines={"OP": op, "PEND": pend, "E": e}, real=["dbus/dbus-list.c"],
                         env=["assert_stubs.c", "pool_lock.c"], checks="assert", unwind=8, unwindset=["strcmp.0:64"], timeout=600,
                         remove_bodies=["update_service_cache", "check_service_file"],
                         encodes=["bus_activation_activate_service", "activation_find_entry", "add_cancel_pending_to_transaction", "bus_activation_send_pending_auto_activation_messages",
                                  "try_send_activation_failure"],
                         stubs=["hash tables = one-entry maps", "spawn / shell parsing / loop / transaction / dispatch = ghost logs with symbolic outcomes", "service cache refresh = body-less"],
                         bounds=f"activation {'pending with %d held message(s)' % e if pend else 'not pending'}; spawn / parse / dispatch outcomes, connectedness and auto-start flags symbolic",
                         shape=f"{nm}, pending={pend}, held={e}"))
    # a failed start takes down only pending activations with the very same Exec line (real pending_activation_finished_cb)
    for k, (exa, exb) in enumerate((("/x/demo s", "/x/demo serve"), ("/x/a", "/x/a"), ("/x/a", "/x/b"), ("/x/serve", "/x/s"))):
        for e in (1, 2):
            J.append(Job(name=f"bcd.failure_scope.X{k}E{e}", group="C19.bus", harness="harness/C19_activation.c", defines={"OP": 3, "PEND": 1, "E": e, "EXA": '"' + exa + '"', "EXB": '"' + exb + '"'}, real=["dbus/dbus-list.c"],
                         env=["assert_stubs.c", "pool_lock.c"], checks="assert", unwind=8, unwindset=["strcmp.0:64", "strlen.0:24", "strncmp.0:24", "memcmp.0:24"], timeout=600, remove_bodies=["update_service_cache", "check_service_file"],
                         encodes=["pending_activation_finished_cb", "pending_activation_failed", "try_send_activation_failure"],
                         stubs=["babysitter = child exited with status 1", "pending-activation table = two-entry map"],
                         bounds=f"failing activation with Exec '{exa}' and {e} waiting sender(s); another pending activation with Exec '{exb}'; connectedness symbolic", shape=f"failure scope {exa} vs {exb}"))
    return J
