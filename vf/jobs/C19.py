"""C19 — auto-started services (decided part: the activation helper only executes a program for a valid name whose service file matches)."""
META = {
    "explanation": "The real decision chain of bus/activation-helper.c is symbolically executed with an arbitrary bus name and an arbitrary service-file content (which keys exist, "
                   "Name= value): the exec stub is reached at most once and only when the name is valid and the file declares exactly that name with Exec and User.",
    "outside": ["the bus side of activation: at-most-once start, holding and in-order delivery of messages, failure fan-out, timeouts (bus/activation.c: ~60 externals, heap strings, "
                "hash tables; not built)", "service-directory lookup, configuration parsing, environment clearing, user switching (body-less stubs)", "babysitter / process behaviour"],
}
def jobs(tier):
    return [Job(name="a.helper_chain", group="C19.a", harness="harness/C19_helper.c", real=["dbus/dbus-marshal-validate.c", "dbus/dbus-string.c"], env=["assert_stubs.c", "mem.c"],
                checks="assert", unwind=10, unwindset=["strcmp.0:64", "strlen.0:24"], timeout=600,
                remove_bodies=["desktop_file_for_name", "get_correct_parser", "check_dbus_user", "clear_environment", "switch_user"],
                encodes=["run_launch_helper", "check_bus_name", "_dbus_validate_bus_name", "launch_bus_name", "get_parameters_for_service", "check_service_name", "exec_for_correct_user"],
                stubs=["desktop file = symbolic key presence and Name value", "execv = ghost counter", "lookup / config / environment / user switch = body-less (arbitrary outcome)"],
                bounds="bus name and file Name value: any bytes, length 0..6; presence of Name / Exec / User symbolic", shape="helper chain")]
