"""C08 — a peer counts as authenticated only after a valid SASL exchange."""
META = {
    "explanation": "One-step induction over the server-side command alphabet on the real dbus-auth.c handlers with ghost-modelled strings and credentials.",
    "outside": ["DBUS_COOKIE_SHA1 first response, keyring files, SHA-1 itself, hex decoding of DATA (the second-response acceptance test is covered by C08.sha1)", "the byte-level line splitter (process_command) and the 16 KiB buffering bound (_dbus_auth_do_work)",
                "transport side: _dbus_transport_try_to_authenticate, do_reading gate, kernel credentials", "client side of the handshake"],
}
def jobs(tier):
    return [Job(name="server_step", group="C08.step", harness="harness/C08_auth.c", env=["assert_stubs.c"], checks="assert", unwind=6, unwindset=["strcmp.0:50"], timeout=600,
                encodes=["handle_server_state_waiting_for_auth", "handle_server_state_waiting_for_data", "handle_server_state_waiting_for_begin", "handle_auth", "process_data",
                         "find_mech", "handle_server_data_external_mech", "handle_server_data_anonymous_mech", "send_ok", "send_rejected", "send_error", "send_data",
                         "send_agree_unix_fd", "shutdown_mech"],
                stubs=["DBusString = length-only ghost (response kind classified by its first bytes)", "DBusCredentials = ghost (who was copied into whom); superset / user lookup answers symbolic",
                       "hex decoding = symbolic outcome", "mechanism name comparison = ghost client choice; allowed_mechs = symbolic per mechanism"],
                assumes=["invariant I on the pre-state (proved inductive by the same job)", "client never selects DBUS_COOKIE_SHA1 (outside the claim)"],
                bounds="any of the 3 server states x 10 commands x symbolic mechanism choice / allowed list / credentials answers / failure counter 0..99 / max_failures 1..100; every string operation may fail",
                shape="one server step")] + [
            Job(name=f"sha1.L{l}", group="C08.sha1", harness="harness/C08_sha1.c", defines={"L": l, "H": 3}, real=["dbus/dbus-string.c"], env=["assert_stubs.c", "mem.c", "memfuncs.c"], checks="assert",
                unwind=24, timeout=900, mem_gb=20, extra=["--object-bits", "12"], tiers=("quick", "thorough") if l == 7 else ("thorough",),
                encodes=["sha1_handle_second_client_response", "sha1_compute_hash", "send_ok", "send_rejected", "shutdown_mech", "_dbus_string_find_blank", "_dbus_string_skip_blank", "_dbus_string_copy_len", "_dbus_string_equal"],
                stubs=["_dbus_sha_compute = 3 solver-chosen hex characters (ghost digest)", "_dbus_keyring_get_hex_key = fails / empty key (unknown cookie id) / a key", "DBusCredentials ghost"],
                assumes=["no allocation failure (--no-malloc-may-fail)", "digest shortened from 40 to 3 hex characters (the comparison code does not depend on the length)"],
                bounds=f"DATA payload of exactly {l} arbitrary bytes, digest 3 hex characters, failures 0..5 of 6", shape=f"payload length {l}") for l in (5, 7, 9)]
