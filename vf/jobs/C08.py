"""C08 — a peer counts as authenticated only after a valid SASL exchange."""
META = {
    "explanation": "One-step induction over the server-side command alphabet on the real dbus-auth.c handlers with ghost-modelled strings and credentials.",
    "outside": ["DBUS_COOKIE_SHA1 first response, keyring files, SHA-1 itself, hex decoding of DATA (the second-response acceptance test is covered by C08.sha1)", "the byte-level line splitter (process_command) and the 16 KiB buffering bound (_dbus_auth_do_work)",
                "transport side: _dbus_transport_try_to_authenticate itself (authorization callbacks), kernel credential retrieval (the do_reading / do_authentication gate is covered by C08.gate)", "client side of the handshake"],
}
QUICK_SHA = {(7, -1, 0), (7, 0, 1), (7, 3, 1), (7, 4, 1), (7, 2, 1), (7, 2, 2), (7, 6, 1), (7, 1, 3)}
def _other(pid):
    import importlib.util, os
    p = os.path.join(os.path.dirname(__file__), pid + ".py")
    spec = importlib.util.spec_from_file_location("vfjobs_x_" + pid, p); m = importlib.util.module_from_spec(spec); m.Job = Job; spec.loader.exec_module(m); return m
def jobs(tier):
    return _jobs(tier) + _gate(tier)
def _gate(tier):
    # transport side: "treats no byte before BEGIN as message data" — the socket step harness of C11.L5 asserts it at the loader's buffer
    G = [j for j in _other("C11").jobs(tier) if j.name.startswith("L5.socket.")]
    for j in G: j.name = "gate." + j.name[3:]; j.group = "C08.gate"
    return G
def _jobs(tier):
    return [Job(name="server_step", group="C08.step", harness="harness/C08_auth.c", env=["assert_stubs.c"], checks="assert", unwind=6, unwindset=["strcmp.0:50"], timeout=600,
                encodes=["handle_server_state_waiting_for_auth", "handle_server_state_waiting_for_data", "handle_server_state_waiting_for_begin", "handle_auth", "process_data",
                         "find_mech", "handle_server_data_external_mech", "handle_server_data_anonymous_mech", "send_ok", "send_rejected", "send_error", "send_data",
                         "send_agree_unix_fd", "shutdown_mech"],
                stubs=["DBusString = length-only ghost (response kind classified by its first bytes)", "DBusCredentials = ghost (who was copied into whom); superset / user lookup answers symbolic",
                       "hex decoding = symbolic outcome", "mechanism name comparison = ghost client choice; allowed_mechs = symbolic per mechanism"],
                assumes=["invariant I on the pre-state (proved inductive by the same job)", "client never selects DBUS_COOKIE_SHA1 (outside the claim)"],
                bounds="any of the 3 server states x 10 commands x symbolic mechanism choice / allowed list / credentials answers / failure counter 0..99 / max_failures 1..100; every string operation may fail",
                shape="one server step")] + [
            Job(name=f"sha1.{'contract' if c else 'accept.K' + str(k)}.L{l}.B{bl}.{nb}".replace("-", "m"), group="C08.sha1", harness="harness/C08_sha1.c",
                defines=dict({"L": l, "H": 3, "BL": bl, "NB": nb, "KEY": k}, **({"CONTRACT": 1} if c else {})), env=["assert_stubs.c", "mem.c", "memfuncs.c"], checks="assert",
                unwind=l + 3, unwindset=["strlen.0:20", "memcpy.0:50", "memmove.0:50", "memmove.1:50", "send_rejected.0:5"], timeout=900, mem_gb=16, extra=["--object-bits", "12"], tiers=("quick", "thorough"),
                encodes=(["_dbus_string_find_blank", "_dbus_string_skip_blank"] if c else ["sha1_handle_second_client_response", "sha1_compute_hash", "send_ok", "send_rejected", "shutdown_mech", "_dbus_string_copy_len", "_dbus_string_copy", "_dbus_string_equal", "_dbus_string_append"]),
                stubs=[] if c else ["_dbus_sha_compute = 3 solver-chosen hex characters (ghost digest)", "_dbus_keyring_get_hex_key = fails / empty key (unknown cookie id) / a key (job shape K0/K1/K2)", "DBusCredentials ghost",
                       "_dbus_string_find_blank / _skip_blank = their contract with the job's concrete answers (checked by the sha1.contract.* twin)", "_dbus_string_init = fixed 96-byte pool buffers (no heap growth)"],
                assumes=["no allocation failure", "digest shortened from 40 to 3 hex characters (the comparison code does not depend on the length)"],
                bounds=f"DATA payload of exactly {l} arbitrary bytes whose first blank is at {bl} (-1: none) followed by {nb - 1 if nb else 0} more blanks; digest 3 hex characters; failures 0..5 of 6",
                shape=f"payload length {l}, blank run [{bl},{bl + nb})")
            for l in (7,) for bl in range(-1, l) for nb in ((0,) if bl < 0 else range(1, l - bl + 1)) for c, k in ((0, 2), (1, 2), (0, 0), (0, 1)) if k == 2 or (bl, nb) == (3, 1)]
