"""C08 — a peer counts as authenticated only after a valid SASL exchange."""
META = {
    "explanation": "One-step induction over the server-side command alphabet on the real dbus-auth.c handlers with ghost-modelled strings and credentials.",
    "outside": ["DBUS_COOKIE_SHA1 (keyring files, SHA-1, hex)", "the byte-level line splitter (process_command) and the 16 KiB buffering bound (_dbus_auth_do_work)",
                "transport side: _dbus_transport_try_to_authenticate, do_reading gate, kernel credentials", "client side of the handshake"],
}
def jobs(tier):
    return [Job(name="server_step", group="C08.step", harness="harness/C08_auth.c", env=["assert_stubs.c"], checks="assert", unwind=6, unwindset=["strcmp.0:50"], timeout=600,
                encodes=["handle_server_state_waiting_for_auth", "handle_server_state_waiting_for_data", "handle_server_state_waiting_for_begin", "handle_auth", "process_data",
                         "find_mech", "handle_server_data_external_mech", "handle_server_data_anonymous_mech", "send_ok", "send_rejected", "send_error", "send_data",
                         "send_agree_unix_fd", "shutdown_mech"],
                stubs=["DBusString = length-only ghost (response kind classified by its first bytes)", "DBusCredentials = ghost (who was copied into whom); superset / user lookup answers symbolic",
                       "hex decoding = symbolic outcome", "mechanism name comparison = ghost client choice; allowed_mechs = symbolic per mechanism"],
                assumes=["invariant I on the pre-state (proved inductive by the same job)", "client never selects DBUS_COOKIE_SHA1 (outside the claim)"],
                bounds="any of the 3 server states x 10 commands x symbolic mechanism choice / allowed list / credentials answers / failure counter 0..99 / max_failures 1..100; every string operation may fail",
                shape="one server step")]
