"""C14 — out-of-memory at any point leaves state unchanged and leaks nothing (bus side: names, pending replies)."""
META = {
    "explanation": "The fault schedule is a solver variable: the k-th allocation (or the j-th driver signal send) inside one real operation fails, k unconstrained. On failure the "
                   "harness runs the recorded transaction cancel hooks newest-first and asserts the observable state and the allocation balance equal the snapshot, then retries.",
    "outside": ["message build / copy / edit and config-file parsing under OOM (heap DBusString pipelines)", "match-rule parsing under OOM", "Hello / AddMatch / routed messages under OOM "
                "(only the dispatch skeleton's 'NoMemory => cancel, never execute' in C03/C05)", "pairs of faults", "LeakSanitizer-style whole-process leak checks"],
}
ENV = ["assert_stubs.c", "mem.c"]
REAL = ["dbus/dbus-list.c", "dbus/dbus-string.c", "dbus/dbus-marshal-validate.c"]
def jobs(tier):
    J = []
    for op, nm in ((0, "request"), (1, "release"), (2, "disconnect")):
        for qn in (0, 1, 2, 3):
            if op == 2 and qn == 0: continue
            tiers = ("quick", "thorough") if qn <= 2 else ("thorough",)
            J.append(Job(name=f"names.{nm}.Q{qn}", group="C14.names", harness="harness/C14_services.c", defines={"QN": qn, "OP": op}, real=REAL, env=ENV,
                         checks="assert", unwind=8, unwindset=["vf_err_is.0:66"], timeout=1200, tiers=tiers,
                         encodes=["bus_registry_acquire_service", "bus_registry_release_service", "bus_service_remove_owner", "bus_service_add_owner", "bus_service_swap_owner",
                                  "cancel_ownership", "restore_ownership", "free_ownership_cancel_data", "free_ownership_restore_data", "bus_registry_ensure"],
                         stubs=["allocator fails at call k (mempool, list pool via dbus-list, dbus_new, hash insert/preallocate, hook registration, owned-service link)",
                                "driver signal send j fails with NoMemory", "cancel = hooks newest-first (as bus_transaction_cancel_and_free)"],
                         bounds=f"queue length {qn}; failing allocation index 0..12 or failing signal index 0..4 (single fault); flags 32-bit",
                         shape=f"{nm} under OOM, queue length {qn}", cost=2 + qn))
    return J
