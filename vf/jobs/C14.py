"""C14 — out-of-memory at any point leaves state unchanged and leaks nothing (bus side: names, pending replies)."""
META = {
    "explanation": "The fault schedule is a solver variable: the k-th allocation (or the j-th driver signal send) inside one real operation fails, k unconstrained. On failure the "
                   "harness runs the recorded transaction cancel hooks newest-first and asserts the observable state and the allocation balance equal the snapshot, then retries.",
    "outside": ["message build / copy / edit and config-file parsing under OOM (heap DBusString pipelines)", "match-rule parsing under OOM", "Hello / AddMatch / routed messages under OOM "
                "(only the dispatch skeleton's 'NoMemory => cancel, never execute' in C03/C05)", "pairs of faults", "LeakSanitizer-style whole-process leak checks"],
}
ENV = ["assert_stubs.c", "mem.c", "memfuncs.c"]
REAL = ["dbus/dbus-list.c", "dbus/dbus-string.c", "dbus/dbus-marshal-validate.c"]
def jobs(tier):
    J = []
    for op, nm in ((0, "request"), (1, "release"), (2, "disconnect")):
        for qn in (0, 1, 2, 3):
            if op == 2 and qn == 0: continue
            tiers = ("quick", "thorough") if qn <= 2 else ("thorough",)
            faults = [("a%d" % k, k, 0) for k in range(1, 11 if op == 0 else 7)] + [("s%d" % j, 0, j) for j in range(1, 4)]
            for tag, koom, ksig in faults:
                if op == 0:   # RequestName under a fault: cost grows steeply with queue length and fault index (measured: Q1.a4 121 s, Q2.a5 331 s, Q2.a6 > 900 s)
                    tiers = ("quick", "thorough") if ((qn == 0 and koom <= 7 and ksig <= 2) or (qn == 1 and koom in (1, 2, 3, 4))) else ("thorough",)
                    # measured in a full thorough run (8 jobs in parallel, 62 GB): request faults beyond these did not reach a verdict in 30..60 min / 12 GB and are not registered
                    if not ((qn == 0 and (1 <= koom <= 7 or 1 <= ksig <= 2)) or (qn >= 1 and 1 <= koom <= 5)): continue
                J.append(Job(name=f"names.{nm}.Q{qn}.{tag}", group="C14.names", harness="harness/C14_services.c", defines={"QN": qn, "OP": op, "KOOM": koom, "KSIG": ksig},
                             real=REAL, env=ENV, checks="assert", unwind=8, unwindset=["vf_err_is.0:66", "memcpy.0:10", "memmove.0:10", "memmove.1:10"], timeout=900 if "quick" in tiers else 5400, tiers=tiers,
                             encodes=["bus_registry_acquire_service", "bus_registry_release_service", "bus_service_remove_owner", "bus_service_add_owner", "bus_service_swap_owner",
                                      "cancel_ownership", "restore_ownership", "free_ownership_cancel_data", "free_ownership_restore_data", "bus_registry_ensure"],
                             stubs=["allocator fails at call k (mempool, list pool via dbus-list, dbus_new, hash insert/preallocate, hook registration, owned-service link)",
                                    "driver signal send j fails with NoMemory", "cancel = hooks newest-first (as bus_transaction_cancel_and_free)"],
                             bounds=f"queue length {qn}; the {('allocation #%d' % koom) if koom else ('signal send #%d' % ksig)} of the operation fails; flags 32-bit, queue contents symbolic",
                             shape=f"{nm} under OOM ({tag}), queue length {qn}", cost=2 + qn))
    # a completed RequestName / ReleaseName step cancelled by a LATER failure of the same transaction (reply building in the driver)
    for op, nm in ((1, "release"),):      # RequestName followed by a cancel: no verdict in 900 s (F8 is covered by the fault-injection jobs)
        for qn in (0, 1, 2, 3):
            J.append(Job(name=f"names.{nm}.Q{qn}.late_cancel", group="C14.names_late", harness="harness/C14_services.c", defines={"QN": qn, "OP": op, "KOOM": 0, "KSIG": 0, "LATE": 1},
                         real=REAL, env=ENV, checks="assert", unwind=8, unwindset=["vf_err_is.0:66", "memcpy.0:10", "memmove.0:10", "memmove.1:10"], timeout=900,
                         encodes=["bus_registry_acquire_service", "bus_registry_release_service", "bus_service_remove_owner", "bus_service_add_owner", "cancel_ownership", "restore_ownership", "free_ownership_cancel_data", "free_ownership_restore_data"],
                         stubs=["cancel = hooks newest-first (as bus_transaction_cancel_and_free)", "no fault inside the operation; the transaction is cancelled after it completed"],
                         bounds=f"queue length {qn}; flags 32-bit, queue contents symbolic; cancel after the completed step", shape=f"{nm} then cancel, queue length {qn}", cost=2 + qn))
    import importlib.util, os
    sp = importlib.util.spec_from_file_location("vfjobs_x_C11", os.path.join(os.path.dirname(__file__), "C11.py")); m = importlib.util.module_from_spec(sp); m.Job = Job; sp.loader.exec_module(m)
    lj = m.loader_job(1, "C14.loader", skip_findings=False); lj.name = "loader.oom.F1"; J.append(lj)
    J.append(Job(name="remove_match.order", group="C14.remove_match", harness="harness/C13_addmatch.c", defines={"OP": 1}, real=["dbus/dbus-string.c"],
                 env=["assert_stubs.c", "mem.c", "msg_model.c"], checks="assert", unwind=8, unwindset=["strcmp.0:48", "strlen.0:24"], timeout=300,
                 encodes=["bus_driver_handle_remove_match", "bus_driver_send_ack_reply"], stubs=["parser / matchmaker / reply construction = outcome stubs with ghost counters"],
                 bounds="every outcome of parsing, reply construction, reply staging and rule lookup", shape="RemoveMatch all-or-nothing"))
    # ---- library side: DBusString editing primitives are all-or-nothing under allocation failure (real heap strings, real reallocate path)
    SH = [(0, 14, 6, 2, 1, 1, 4), (0, 15, 6, 3, 0, 0, 5), (0, 6, 5, 2, 1, 1, 3), (0, 7, 6, 7, 0, 0, 6), (0, 14, 6, 2, 3, 1, 3), (0, 14, 6, 2, 3, 1, 1),
          (1, 14, 6, 5, 0, 1, 4), (1, 7, 6, 0, 0, 0, 6), (2, 14, 0, 3, 0, 0, 4), (2, 7, 0, 7, 0, 0, 2)]     # _dbus_string_append (C string) dropped: strlen over symbolic bytes, no verdict
    OPN = ["replace_len", "copy_len", "insert_bytes", "append"]
    for (op, dl, sl, at, rl, ss, ln) in SH:
        for k in (0, 1, 2):
            J.append(Job(name=f"string.{OPN[op]}.D{dl}S{sl}.at{at}r{rl}s{ss}l{ln}.k{k}", group="C14.string", harness="harness/C14_string.c",
                         defines={"OP": op, "DL": dl, "SL": max(sl, 1), "AT": at, "RL": rl, "SS": ss, "LEN": ln, "KOOM": k}, env=["assert_stubs.c", "mem.c", "memfuncs.c"],
                         checks="assert", unwind=48, timeout=600, extra=["--object-bits", "11", "--max-field-sensitivity-array-size", "200"], tiers=("quick", "thorough"),
                         encodes=["_dbus_string_" + OPN[op], "copy", "open_gap", "delete", "set_length", "reallocate_for_length", "_dbus_string_init", "_dbus_string_append_byte"],
                         stubs=["dbus_malloc / dbus_realloc = malloc with a concrete failing call number (R3)", "malloc returns 8-aligned blocks (_DBUS_ALIGN_ADDRESS = identity)"],
                         bounds=f"{OPN[op]}: destination {dl} bytes, source {sl} bytes, at {at}, replacing {rl}, taking {ln} from {ss}; all bytes symbolic; allocation number {k} of the operation fails (0 = none)",
                         shape=f"{OPN[op]} D{dl} S{sl} at{at} r{rl} s{ss} l{ln} fault {k}"))
    # header edits with one failing allocation (same jobs as C12.oom; found F15)
    sp12 = importlib.util.spec_from_file_location("vfjobs_x_C12", os.path.join(os.path.dirname(__file__), "C12.py")); m12 = importlib.util.module_from_spec(sp12); m12.Job = Job; sp12.loader.exec_module(m12)
    for j in m12.jobs(tier):
        if j.group == "C12.oom": j.group = "C14.header"; j.name = "header_" + j.name; J.append(j)
    J.append(Job(name="connection.complete", group="C14.connections", harness="harness/C09_pending.c", defines={"P": 0, "OP": 9}, real=["dbus/dbus-list.c"],
                 env=["assert_stubs.c", "mem.c", "pool_lock.c", "msg_model.c", "msg_build.c"], checks="assert", unwind=7, unwindset=["strcmp.0:48"], timeout=300,
                 encodes=["bus_connections_check_limits", "bus_connection_complete", "adjust_connections_for_uid", "get_connections_for_uid", "cache_peer_loginfo_string", "bus_connections_expire_incomplete"],
                 stubs=["per-user table = one ghost counter", "string / policy / table operations = outcome stubs, the k-th one fails (k symbolic 0..8)", "limits symbolic 1..1000"],
                 assumes=["inductive hypothesis: counts within limits before the step"],
                 bounds="one Hello completing one incomplete connection; completed count, per-user count and both limits symbolic up to 1000; any single failing step",
                 shape="connection completion step"))
    # building a message: appending a basic value / a file descriptor with any of its fallible steps failing (descriptors as identities; found F24)
    for ty, nm in ((104, "unix_fd"), (117, "uint32")):
        J.append(Job(name=f"append.{nm}", group="C14.append", harness="harness/C14_append_fd.c", defines={"TYPE": ty}, real=["dbus/dbus-signature.c"], env=["assert_stubs.c"], checks="assert", unwind=14, timeout=300,
                     encodes=["dbus_message_iter_append_basic", "_dbus_message_iter_open_signature", "_dbus_message_iter_close_signature", "expand_fd_array", "close_unix_fds", "_dbus_message_iter_append_check"],
                     stubs=["DBusString = length-only ghost", "_dbus_type_writer_write_basic = appends 4 aligned bytes and one type code, or fails leaving both alone (contract of C02.c / C12)",
                            "_dbus_header_set_field_basic / _dbus_header_get_field_raw = ghost SIGNATURE and UNIX_FDS fields, may fail", "_dbus_dup / _dbus_close = ghost descriptor table with identities", "dbus_realloc = fresh block, may fail"],
                     bounds="message already holding 0..3 descriptors (array absent or of 4), body 0..200 bytes, signature absent or 1..40 codes; every combination of the 7 fallible steps failing",
                     shape=f"append one {nm} to a message under faults"))
    # copying a message: every fallible step of dbus_message_copy, dup() of the j-th descriptor included
    for n in (0, 1, 2, 3):
        J.append(Job(name=f"copy.fds{n}", group="C14.copy", harness="harness/C14_copy.c", defines={"NFDS": n}, env=["assert_stubs.c"], checks="assert", unwind=18, timeout=300,
                     encodes=["dbus_message_copy", "close_unix_fds"],
                     stubs=["DBusString / DBusHeader = length-only ghosts with init/free balance counters, each step may fail", "_dbus_dup / _dbus_close = ghost descriptor table with identities; the j-th dup fails (j symbolic)", "dbus_malloc / dbus_malloc0 = may fail, balance counted"],
                     bounds=f"original with {n} descriptor(s), header 16..4096 and body 0..4096 bytes (lengths only); every combination of the 5 allocation steps failing and any one dup failing",
                     shape=f"copy of a message with {n} descriptor(s) under faults"))
    # Hello as a whole under OOM: the C03 Hello skeleton with the atomicity obligation switched on (known finding F18)
    sp3 = importlib.util.spec_from_file_location("vfjobs_x_C03", os.path.join(os.path.dirname(__file__), "C03.py")); m3 = importlib.util.module_from_spec(sp3); m3.Job = Job; sp3.loader.exec_module(m3)
    for j in m3.jobs(tier):
        if j.name == "c.hello_once": j.group = "C14.hello"; j.name = "hello.atomicity"; j.defines = dict(j.defines, VF_C14_HELLO=1); J.append(j)
    return J
