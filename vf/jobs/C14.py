"""C14 — out-of-memory at any point leaves state unchanged and leaks nothing (bus side: names, pending replies)."""
META = {
    "explanation": "The fault schedule is a solver variable: the k-th allocation (or the j-th driver signal send) inside one real operation fails, k unconstrained. On failure the "
                   "harness runs the recorded transaction cancel hooks newest-first and asserts the observable state and the allocation balance equal the snapshot, then retries.",
    "outside": ["message build / copy / edit and config-file parsing under OOM (heap DBusString pipelines)", "match-rule parsing under OOM", "Hello / AddMatch / routed messages under OOM "
                "(only the dispatch skeleton's 'NoMemory => cancel, never execute' in C03/C05)", "pairs of faults", "LeakSanitizer-style whole-process leak checks"],
}
ENV = ["assert_stubs.c", "mem.c", "memfuncs.c"]
REAL = ["dbus/dbus-list.c", "dbus/dbus-string.c", "dbus/dbus-marshal-validate.c"]
def jobs(tier):
    J = []
    for op, nm in ((0, "request"), (1, "release"), (2, "disconnect")):
        for qn in (0, 1, 2, 3):
            if op == 2 and qn == 0: continue
            tiers = ("quick", "thorough") if qn <= 2 else ("thorough",)
            faults = [("a%d" % k, k, 0) for k in range(1, 11 if op == 0 else 7)] + [("s%d" % j, 0, j) for j in range(1, 4)]
            for tag, koom, ksig in faults:
                if op == 0:   # RequestName under a fault: cost grows steeply with queue length and fault index (measured: Q1.a4 121 s, Q2.a5 331 s, Q2.a6 > 900 s)
                    tiers = ("quick", "thorough") if ((qn == 0 and koom <= 7 and ksig <= 2) or (qn == 1 and koom in (1, 2, 3, 4))) else ("thorough",)
                J.append(Job(name=f"names.{nm}.Q{qn}.{tag}", group="C14.names", harness="harness/C14_services.c", defines={"QN": qn, "OP": op, "KOOM": koom, "KSIG": ksig},
                             real=REAL, env=ENV, checks="assert", unwind=8, unwindset=["vf_err_is.0:66", "memcpy.0:10", "memmove.0:10", "memmove.1:10"], timeout=900 if "quick" in tiers else 5400, tiers=tiers,
                             encodes=["bus_registry_acquire_service", "bus_registry_release_service", "bus_service_remove_owner", "bus_service_add_owner", "bus_service_swap_owner",
                                      "cancel_ownership", "restore_ownership", "free_ownership_cancel_data", "free_ownership_restore_data", "bus_registry_ensure"],
                             stubs=["allocator fails at call k (mempool, list pool via dbus-list, dbus_new, hash insert/preallocate, hook registration, owned-service link)",
                                    "driver signal send j fails with NoMemory", "cancel = hooks newest-first (as bus_transaction_cancel_and_free)"],
                             bounds=f"queue length {qn}; the {('allocation #%d' % koom) if koom else ('signal send #%d' % ksig)} of the operation fails; flags 32-bit, queue contents symbolic",
                             shape=f"{nm} under OOM ({tag}), queue length {qn}", cost=2 + qn))
    import importlib.util, os
    sp = importlib.util.spec_from_file_location("vfjobs_x_C11", os.path.join(os.path.dirname(__file__), "C11.py")); m = importlib.util.module_from_spec(sp); m.Job = Job; sp.loader.exec_module(m)
    lj = m.loader_job(1, "C14.loader", skip_findings=False); lj.name = "loader.oom.F1"; J.append(lj)
    J.append(Job(name="remove_match.order", group="C14.remove_match", harness="harness/C13_addmatch.c", defines={"OP": 1}, real=["dbus/dbus-string.c"],
                 env=["assert_stubs.c", "mem.c", "msg_model.c"], checks="assert", unwind=8, unwindset=["strcmp.0:48", "strlen.0:24"], timeout=300,
                 encodes=["bus_driver_handle_remove_match", "bus_driver_send_ack_reply"], stubs=["parser / matchmaker / reply construction = outcome stubs with ghost counters"],
                 bounds="every outcome of parsing, reply construction, reply staging and rule lookup", shape="RemoveMatch all-or-nothing"))
    return J
