"""C11 — message framing is independent of how the byte stream is chunked (lemmas L1 and L3 + loader skeleton L2 when built)."""
import importlib.util, os
META = {
    "explanation": "Three solver lemmas about the real code and a stated induction: L1 (prefix determinism, full width): framing validity and lengths are a function of the first 16 bytes "
                   "and the limit only, 'complete' is monotone in the available length and flips exactly at header+body (real _dbus_header_have_message_untrusted). L3: the "
                   "validator's verdict on a frame does not depend on the bytes following it in the buffer (self-composition on the real body validator). L2 (exact consumption, "
                   "sticky corruption in the real loader loop) — see jobs. Meta-argument (not machine-checked): by L1-L3 the loader state after feeding any partition of a "
                   "stream equals the state after feeding the concatenation, by induction on the number of chunks.",
    "outside": ["a direct multi-chunk run through the real heap-string loader", "ordering between recover_unused_bytes and the first socket read (socket_do_iteration / socket_handle_watch)", "_dbus_header_load's own use of the buffer"],
}
def _other(pid):
    p = os.path.join(os.path.dirname(__file__), pid + ".py")
    spec = importlib.util.spec_from_file_location("vfjobs_x_" + pid, p); m = importlib.util.module_from_spec(spec); m.Job = Job; spec.loader.exec_module(m); return m
def jobs(tier):
    J = []
    c01 = _other("C01")
    for j in c01.jobs(tier):
        if j.name == "a.fixed_header":
            j.name = "L1.prefix_determinism"; j.group = "C11.L1"; J.append(j)
    pick_q = {"u": 8, "s": 8, "au": 8, "(sy)": 10, "ay": 8}
    pick_t = {"yu": 12, "o": 10, "at": 16, "as": 6}
    for sig, n in list(pick_q.items()) + (list(pick_t.items()) if tier == "thorough" else []):
        proto = [x for x in c01.jobs("thorough") if x.name.startswith("b.body." + sig + ".")][0]
        proto.name = f"L3.suffix_independence.{sig}.N{n}"; proto.group = "C11.L3"; proto.tiers = ("quick", "thorough")
        proto.defines = dict(proto.defines, N=n, TAIL=4); proto.unwind = n + 4 + 3
        proto.bounds = f"signature '{sig}', frame 0..{n} bytes followed by 4 arbitrary bytes, two different continuations, both byte orders"
        proto.shape = f"suffix independence for {sig}"; proto.timeout = 1200
        J.append(proto)
    for fr in ((1,) if tier == "quick" else (1, 2)):
        J.append(loader_job(fr, "C11.L2", skip_findings=True))
    J.append(Job(name="L4.transport.queue", group="C11.L4", harness="harness/C11_transport.c", defines={"K": 3}, env=["assert_stubs.c"], checks="assert", unwind=6, timeout=600,
                 extra=["--object-bits", "12"],
                 encodes=["_dbus_transport_queue_messages", "_dbus_transport_get_dispatch_status", "recover_unused_bytes", "_dbus_transport_disconnect", "_dbus_transport_try_to_authenticate (cached-true path)"],
                 stubs=["loader = ghost that has framed 0..3 messages and may be corrupt behind them", "DBusString = length-only ghost; copy / add_counter / framing may fail (symbolic)", "connection queue = ghost order log"],
                 assumes=["transport already authenticated", "live-message byte and fd limits not reached", "no SASL encoding layer (needs_decoding false)"],
                 bounds="0..3 framed messages, corrupt or intact, leftover handshake bytes 0..100 (recovered before or not), any combination of allocation failures",
                 shape="transport drain of framed messages"))
    for fr in (0, 1, 2):
        J.append(Job(name=f"L6.read_hint.F{fr}", group="C11.L6", harness="harness/C11_loader.c", defines={"FRAMES": fr, "GETBUF": 1, "VF_SKIP_FINDINGS": 1}, real=["dbus/dbus-list.c"], env=["assert_stubs.c", "pool_lock.c", "memfuncs.c"],
                     checks="assert", unwind=6, timeout=600, mem_gb=16, encodes=["_dbus_message_loader_get_buffer"],
                     stubs=["DBusString = length-only ghost", "_dbus_header_have_message_untrusted = symbolic frames under the contract of C01.a"],
                     bounds=f"{fr} complete frame(s) buffered + 0..15 or more bytes of a partial one; 0..8 descriptors held; lengths up to 4096", shape=f"read-size hint behind {fr} frame(s)"))
    for e, nm in ((0, "handle_watch"), (1, "do_iteration")):
        J.append(Job(name=f"L5.socket.{nm}", group="C11.L5", harness="harness/C11_socket.c", defines={"ENTRY": e}, env=["assert_stubs.c"], checks="assert", unwind=8, timeout=600,
                     extra=["--object-bits", "12"],
                     encodes=["socket_handle_watch" if e == 0 else "socket_do_iteration", "do_authentication", "do_reading", "read_data_into_auth", "write_data_from_auth", "check_read_watch", "check_write_watch",
                              "do_io_error", "unix_error_with_read_to_come", "socket_disconnect", "free_watches"],
                     stubs=["auth object = ghost state that changes arbitrarily after each read / write", "_dbus_transport_try_to_authenticate = cached flag, or (auth state AUTHENTICATED) authorize-or-disconnect",
                            "socket reads / writes / poll = symbolic results, at most 2 successful reads and 2 writes per step", "_dbus_transport_queue_messages = contract of C11.L4 (recovers leftovers first)"],
                     assumes=["invariant J: authenticated => leftovers recovered (restored after each step by the connection's dispatch-status call, C11.L4)", "credentials byte already exchanged", "no outgoing messages (C15.send)"],
                     bounds="one step from any auth state / watch / flag combination; at most 2 successful socket reads and 2 writes within the step", shape=f"one {nm} step"))
    return J

def loader_job(frames, group, skip_findings):
    d = {"FRAMES": frames}
    if skip_findings: d["VF_SKIP_FINDINGS"] = 1
    return Job(name=f"L2.loader.F{frames}", group=group, harness="harness/C11_loader.c", defines=d, real=["dbus/dbus-list.c"], env=["assert_stubs.c", "pool_lock.c", "memfuncs.c"],
               checks="assert", unwind=6, unwindset=["memmove.0:40", "memmove.1:40", "memcpy.0:40"], timeout=1800, mem_gb=20,
               encodes=["_dbus_message_loader_queue_messages", "load_message", "dbus_message_new_empty_header", "dbus_message_unref", "dbus_message_cache_or_finalize"],
               stubs=["DBusString = length-only ghost", "_dbus_header_have_message_untrusted / _dbus_header_load / _dbus_validate_body_with_reason = symbolic outcomes under the contracts of C01.a / C01.b"],
               assumes=["framing stub obeys C01.a: complete only if header+body bytes are buffered, header length >= 16 and a multiple of 8"],
               bounds=f"buffer = {frames} frame(s) + a remainder of 0..15 bytes; each frame valid / header-invalid / body-invalid / OOM symbolic; lengths up to 4096; 0..4 fds per frame, 0..8 fds held",
               shape=f"loader loop over {frames} frame(s)", cost=10 * frames)
