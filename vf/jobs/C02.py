"""C02 — built messages serialise to valid wire format and round-trip exactly (kernels: byte-order conversion, leaf marshalling)."""
META = {
    "explanation": "Kernel-level bounded checks: (c) the real DBusTypeWriter / DBusTypeReader / validator round trip per concrete value-tree shape with symbolic values, against an independent encoder; (b) the real _dbus_marshal_byteswap on every well-formed body (well-formedness assumed through the independent decoder) of a "
                   "concrete signature: result well-formed in the other order, same decoded values, accepted by the real validator, involutive; (a) the real "
                   "_dbus_marshal_write_basic / _read_basic on a fixed-capacity string: spec encoding, zero padding, exact read-back.",
    "outside": ["the dbus_message_* wrappers around the writer (argument checks, message locking, header creation, dbus_message_copy)",
                "bodies longer than N, signatures outside the family", "re-serialisation byte identity of whole messages"],
}
ENV = ["assert_stubs.c", "mem.c", "list_lifo.c"]
REAL = ["dbus/dbus-marshal-byteswap.c", "dbus/dbus-marshal-validate.c", "dbus/dbus-marshal-recursive.c", "dbus/dbus-marshal-basic.c", "dbus/dbus-string.c", "dbus/dbus-signature.c"]
ART = [(r"arithmetic overflow on signed - in end - p", "CBMC pointer-difference artifact in a _dbus_verbose argument of the validator (see C01)")]
def _validator_ok(sig):
    import re
    return re.search(r'a[^ybnqiuxtdh]', sig) is None
def jobs(tier):
    J = []
    fam_q = [("y", 8), ("n", 10), ("q", 10), ("b", 12), ("i", 12), ("u", 12), ("h", 12), ("x", 16), ("t", 16), ("d", 16), ("s", 12), ("o", 12), ("g", 8),
             ("yu", 12), ("us", 12), ("aty", 9), ("a(yy)q", 10), ("ay", 12), ("an", 12), ("au", 12), ("at", 16), ("(yu)", 12), ("(sy)", 12)]
    fam_t = [("a(yy)", 10), ("ah", 12), ("(yh)", 12), ("su", 16)]   # as / ao / a{ys} / aay: no verdict at N=7..10 within 16 GB (arrays of variable-size elements through the reference decoder)
    for fam, tiers in ((fam_q, ("quick", "thorough")), (fam_t, ("thorough",))):
        for sig, n in fam:
            J.append(Job(name=f"b.byteswap.{sig}.N{n}", group="C02.b", harness="harness/C02_byteswap.c", defines={"SIG": '"' + sig + '"', "N": n}, real=REAL, env=ENV,
                         unwind=n + 10, unwindset=["validate_body_helper:4", "ref_value:4", "byteswap_body_helper:4"], timeout=900 if "quick" in tiers else 2400, mem_gb=16, extra=["--object-bits", "10"] if len(sig) > 2 else [],
                         tiers=tiers, ignore=ART, encodes=["_dbus_marshal_byteswap", "byteswap_body_helper", "_dbus_swap_array", "_dbus_validate_body_with_reason"],
                         assumes=["the body is well-formed in the source byte order according to ref/ref_marshal.h"],
                         bounds=f"signature '{sig}', every well-formed body of 0..{n} bytes, both directions", shape=f"byteswap of {sig}", cost=n))
    # ---- C02.c: DBusTypeWriter -> bytes -> validator -> DBusTypeReader round trip on pool strings (R19)
    WR = [("yqus", 2, 3, "u"), ("(ys)x", 2, 2, "u"), ("auy", 2, 1, "u"), ("auy", 0, 1, "u"), ("a(yy)q", 0, 1, "u"), ("a(yy)q", 2, 1, "u"), ("as", 2, 2, "u"), ("vy", 1, 3, "u"), ("vy", 1, 3, "s"),
          ("a{sv}", 1, 2, "u"), ("atu", 0, 1, "u"), ("atu", 1, 1, "u"), ("xyd(nb)h", 1, 1, "u"), ("aayq", 2, 1, "u"), ("(u(ys))t", 1, 3, "u"), ("yv", 1, 2, "(ys)"), ("a{us}y", 2, 1, "u"), ("sas", 1, 5, "u")]
    for k, (sig, acnt, slen, vsig) in enumerate(WR):
        for o in "lB":
            J.append(Job(name=f"c.writer.{sig}.A{acnt}.S{slen}.V{vsig}.{'le' if o == 'l' else 'be'}", group="C02.c", harness="harness/C02_writer.c",
                         defines=dict({"SIG": '"' + sig + '"', "ACNT": acnt, "SLEN": slen, "VSIG": '"' + vsig + '"', "ORDER": "'%s'" % o}, **({} if _validator_ok(sig) else {"NOVALIDATE": 1})),
                         real=["dbus/dbus-marshal-recursive.c", "dbus/dbus-marshal-validate.c", "dbus/dbus-signature.c", "dbus/dbus-list.c"], env=["assert_stubs.c", "mem.c", "memfuncs.c", "pool_lock.c"],
                         checks="assert", unwind=170, unwindset=["_dbus_string_validate_utf8.0:12", "_dbus_string_validate_utf8.1:12", "_dbus_string_validate_utf8.2:12", "validate_body_helper.0:14", "validate_body_helper.1:14", "validate_body_helper:6"], timeout=900, mem_gb=16,
                         extra=["--object-bits", "12", "--max-field-sensitivity-array-size", "200"], tiers=("quick", "thorough"),
                         encodes=["_dbus_type_writer_init", "_dbus_type_writer_write_basic", "_dbus_type_writer_recurse", "_dbus_type_writer_unrecurse", "writer_recurse_array", "writer_recurse_struct_or_dict_entry",
                                  "writer_recurse_variant", "_dbus_marshal_write_basic", "marshal_string", "_dbus_string_insert_alignment", "_dbus_validate_body_with_reason", "_dbus_type_reader_init",
                                  "_dbus_type_reader_recurse", "_dbus_type_reader_next", "_dbus_type_reader_read_basic"],
                         stubs=["_dbus_string_init = fixed 160-byte pool buffers (R19)", "strlen in marshal_string = checked oracle (all written strings have the job's length)"],
                         assumes=["no allocation failure", "string bytes are non-NUL ASCII"],
                         bounds=f"signature '{sig}', every array {acnt} element(s), every string {slen} byte(s), variants contain '{vsig}', byte order {'little' if o == 'l' else 'big'}; all values symbolic" + ("" if _validator_ok(sig) else "; step (3), the real validator, is skipped for this shape (arrays of variable-size elements: no verdict in 400 s / 16 GB; the validator on such shapes is C01's subject)"),
                         shape=f"writer round trip {sig} A{acnt} S{slen} V{vsig}"))
    # ---- C02.d: header field positions of long headers (the field cache of dbus-marshal-header.c keeps any position up to the message size limit); harness and jobs of C12
    import importlib.util, os
    spec = importlib.util.spec_from_file_location("vfjobs_x_C12", os.path.join(os.path.dirname(__file__), "C12.py")); m = importlib.util.module_from_spec(spec); m.Job = Job; spec.loader.exec_module(m)
    for j in m.jobs(tier):
        if ".far." in j.name:
            j.name = "d.header_cache." + j.name.replace("edit.", ""); j.group = "C02.d"; J.append(j)
    return J
