"""C02 — built messages serialise to valid wire format and round-trip exactly (kernels: byte-order conversion, leaf marshalling)."""
META = {
    "explanation": "Kernel-level bounded checks: (b) the real _dbus_marshal_byteswap on every well-formed body (well-formedness assumed through the independent decoder) of a "
                   "concrete signature: result well-formed in the other order, same decoded values, accepted by the real validator, involutive; (a) the real "
                   "_dbus_marshal_write_basic / _read_basic on a fixed-capacity string: spec encoding, zero padding, exact read-back.",
    "outside": ["the dbus_message_* construction API, header creation, dbus_message_copy", "DBusTypeWriter containers (arrays / structs / variants written through the writer)",
                "bodies longer than N, signatures outside the family", "re-serialisation byte identity of whole messages"],
}
ENV = ["assert_stubs.c", "mem.c", "list_lifo.c"]
REAL = ["dbus/dbus-marshal-byteswap.c", "dbus/dbus-marshal-validate.c", "dbus/dbus-marshal-recursive.c", "dbus/dbus-marshal-basic.c", "dbus/dbus-string.c", "dbus/dbus-signature.c"]
ART = [(r"arithmetic overflow on signed - in end - p", "CBMC pointer-difference artifact in a _dbus_verbose argument of the validator (see C01)")]
def jobs(tier):
    J = []
    fam_q = [("y", 8), ("n", 10), ("q", 10), ("b", 12), ("i", 12), ("u", 12), ("h", 12), ("x", 16), ("t", 16), ("d", 16), ("s", 12), ("o", 12), ("g", 8),
             ("yu", 12), ("us", 12), ("aty", 9), ("a(yy)q", 10), ("ay", 12), ("an", 12), ("au", 12), ("at", 16), ("(yu)", 12), ("(sy)", 12)]
    fam_t = [("as", 10), ("ao", 10), ("a{ys}", 10), ("a(yy)", 10), ("aay", 10), ("ah", 12), ("(yh)", 12), ("su", 16)]
    for fam, tiers in ((fam_q, ("quick", "thorough")), (fam_t, ("thorough",))):
        for sig, n in fam:
            J.append(Job(name=f"b.byteswap.{sig}.N{n}", group="C02.b", harness="harness/C02_byteswap.c", defines={"SIG": '"' + sig + '"', "N": n}, real=REAL, env=ENV,
                         unwind=n + 10, unwindset=["validate_body_helper:4", "ref_value:4", "byteswap_body_helper:4"], timeout=900 if "quick" in tiers else 2400, mem_gb=16, extra=["--object-bits", "10"] if len(sig) > 2 else [],
                         tiers=tiers, ignore=ART, encodes=["_dbus_marshal_byteswap", "byteswap_body_helper", "_dbus_swap_array", "_dbus_validate_body_with_reason"],
                         assumes=["the body is well-formed in the source byte order according to ref/ref_marshal.h"],
                         bounds=f"signature '{sig}', every well-formed body of 0..{n} bytes, both directions", shape=f"byteswap of {sig}", cost=n))
    return J
