"""C15 — passed file descriptors arrive intact and are never leaked (receive path of the library)."""
META = {
    "explanation": "The real _dbus_read_socket_with_unix_fds is symbolically executed against an arbitrary kernel answer (control messages, truncation flag) with a ghost descriptor "
                   "table; memory-safety checks on (the control buffer is attacker-influenced).",
    "outside": ["the bus's descriptor table across histories, kernel semantics beyond the stated recvmsg contract", "load_message's fd-count comparison, message finalisers, "
                "pending-fd timeout, dispatch refusal for peers without fd support (the latter is asserted in the C05 dispatch check)", "the send path (_dbus_write_socket_with_unix_fds)"],
}
def jobs(tier):
    J = []
    shapes = []
    for nfd in (0, 1, 2, 3):
        shapes.append((nfd, 0, 0))
        for pay in sorted(set((0, nfd * 4))): shapes.append((nfd, 1, pay))
        for pay in range(0, nfd + 1): shapes.append((nfd, 2, pay))
    for nfd, kind, pay in shapes:
        J.append(Job(name=f"recv.NFD{nfd}.K{kind}.P{pay}", group="C15.recv", harness="harness/C15_recv_fds.c", defines={"NFD": nfd, "KIND": kind, "PAY": pay},
                     real=["dbus/dbus-string.c"], env=["assert_stubs.c", "mem.c"], checks="std", unwind=8,
                     unwindset=["harness.0:34", "harness.1:8", "recvmsg.0:14", "memcpy.0:40", "_dbus_read_socket_with_unix_fds.0:2"], timeout=600, tiers=("quick", "thorough") if nfd <= 2 else ("thorough",),
                     encodes=["_dbus_read_socket_with_unix_fds"], stubs=["recvmsg = kernel answer of concrete layout, symbolic contents", "close / close-on-exec = ghost descriptor table"],
                     assumes=["CMSG_DATA(c) redefined as (unsigned char *)(c) + sizeof (struct cmsghdr) (equivalent to glibc's flexible-array form, which CBMC mis-models)", "at most one control message fits the exactly-sized control buffer", "the control message lies inside the buffer offered (Linux adjusts cmsg_len on truncation)"],
                     bounds=f"caller capacity {nfd}; kernel answer: " + ("no control message" if kind == 0 else f"one non-SCM_RIGHTS message with {pay} payload bytes" if kind == 1 else f"SCM_RIGHTS with {pay} descriptor(s)") + "; MSG_CTRUNC symbolic; bytes read -1..4",
                     shape=f"capacity {nfd}, kind {kind}, payload {pay}", cost=1 + nfd))
    J.append(Job(name="send.do_writing", group="C15.send", harness="harness/C15_send.c", env=["assert_stubs.c"], checks="assert", unwind=6, timeout=600, extra=["--object-bits", "12"],
                 encodes=["do_writing"], stubs=["socket writes = symbolic partial writes / EAGAIN with ghost offset log", "outgoing queue = one message", "auth = fd-negotiated flag, no encoding"],
                 bounds="header 16..40, body 0..24 bytes, 0..3 descriptors, arbitrary resumption offset, up to 4 successful partial writes of any sizes per do_writing call (then EAGAIN)", shape="partial writes of one message"))
    J.append(Job(name="pending_fd_timer", group="C15.pending_timer", harness="harness/C09_pending.c", defines={"P": 0, "OP": 7}, real=["dbus/dbus-list.c"],
                 env=["assert_stubs.c", "mem.c", "pool_lock.c", "msg_model.c", "msg_build.c"], checks="assert", unwind=7, unwindset=["strcmp.0:48"], timeout=300,
                 encodes=["check_pending_fds_cb", "pending_unix_fds_timeout_cb"], stubs=["DBusTimeout = record", "pending-descriptor count = symbolic"],
                 bounds="old and new pending-descriptor counts 0..1000", shape="pending-fd timer step"))
    import importlib.util, os
    sp = importlib.util.spec_from_file_location("vfjobs_x_C11", os.path.join(os.path.dirname(__file__), "C11.py")); m = importlib.util.module_from_spec(sp); m.Job = Job; sp.loader.exec_module(m)
    lj = m.loader_job(1, "C15.fd_count", skip_findings=True); lj.name = "loader.fd_count.F1"; J.append(lj)
    # recipient side: the application takes descriptors out of a received message (real _dbus_message_iter_get_args_valist; va_list walked twice)
    GA = [("h", "h"), ("hh", "hh"), ("hh", "hu"), ("huh", "huh"), ("uh", "uh"), ("h", "hh"), ("hhu", "hhh"), ("hhh", "hhh"), ("uhh", "uhu"), ("hhhh", "hhhh")]
    for msg, spec in GA:
        J.append(Job(name=f"get_args.{msg}.as.{spec}", group="C15.get_args", harness="harness/C15_get_args.c", defines={"MSG": '"' + msg + '"', "SPEC": '"' + spec + '"'}, real=["dbus/dbus-signature.c"],
                     env=["assert_stubs.c"], checks="assert", unwind=14, unwindset=[f"_dbus_message_iter_get_args_valist.2:{len(spec) + 2}", f"_dbus_message_iter_get_args_valist.3:{len(spec) + 2}"], timeout=300, 
                     encodes=["_dbus_message_iter_get_args_valist", "dbus_message_iter_get_arg_type", "_dbus_message_iter_check"],
                     stubs=["DBusTypeReader = ghost cursor over the message's argument types with symbolic 32-bit values", "_dbus_dup / _dbus_close = ghost descriptor table with identities; the j-th dup fails (j symbolic)", "dbus_set_error = flag"],
                     bounds=f"message arguments {msg}, caller asks for {spec}; 0..4 descriptors attached; descriptor indices in the body 32-bit symbolic; any one dup failing",
                     shape=f"get_args {msg} read as {spec}"))
    for msg in ("h", "u"):
        J.append(Job(name=f"get_basic.{msg}", group="C15.get_args", harness="harness/C15_get_args.c", defines={"MSG": '"' + msg + '"', "SPEC": '"' + msg + '"', "GETBASIC": 1}, real=["dbus/dbus-signature.c"],
                     env=["assert_stubs.c"], checks="assert", unwind=14, timeout=300, encodes=["dbus_message_iter_get_basic", "dbus_message_iter_get_arg_type", "_dbus_message_iter_check"],
                     stubs=["DBusTypeReader = ghost cursor with a symbolic 32-bit value", "_dbus_dup / _dbus_close = ghost descriptor table with identities; dup may fail"],
                     bounds="one argument; 0..4 descriptors attached; descriptor index 32-bit symbolic", shape=f"get_basic on {msg}"))
    # sender side: the descriptor duplicated by dbus_message_iter_append_basic is accounted to the message on every path (same job as C14.append; F24 is reported there)
    sp14 = importlib.util.spec_from_file_location("vfjobs_x_C14", os.path.join(os.path.dirname(__file__), "C14.py")); m14 = importlib.util.module_from_spec(sp14); m14.Job = Job; sp14.loader.exec_module(m14)
    for j in m14.jobs(tier):
        if j.name == "append.unix_fd": j.group = "C15.append"; j.defines = dict(j.defines, VF_SKIP_FINDINGS=1); J.append(j)
        if j.name.startswith("copy.fds") and j.name != "copy.fds0": j.group = "C15.copy"; J.append(j)
    return J
