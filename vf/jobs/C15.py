"""C15 — passed file descriptors arrive intact and are never leaked (receive path of the library)."""
META = {
    "explanation": "The real _dbus_read_socket_with_unix_fds is symbolically executed against an arbitrary kernel answer (control messages, truncation flag) with a ghost descriptor "
                   "table; memory-safety checks on (the control buffer is attacker-influenced).",
    "outside": ["the bus's descriptor table across histories, kernel semantics beyond the stated recvmsg contract", "load_message's fd-count comparison, message finalisers, "
                "pending-fd timeout, dispatch refusal for peers without fd support (the latter is asserted in the C05 dispatch check)", "the send path (_dbus_write_socket_with_unix_fds)"],
}
def jobs(tier):
    J = []
    for nfd in (0, 1, 2, 3):
        J.append(Job(name=f"recv.NFD{nfd}", group="C15.recv", harness="harness/C15_recv_fds.c", defines={"NFD": nfd}, real=["dbus/dbus-sysdeps-unix.c", "dbus/dbus-string.c"],
                     env=["assert_stubs.c", "mem.c"], checks="std", unwind=34, timeout=900, tiers=("quick", "thorough") if nfd <= 2 else ("thorough",),
                     encodes=["_dbus_read_socket_with_unix_fds"], stubs=["recvmsg = symbolic kernel answer within the stated contract", "close / close-on-exec = ghost descriptor table"],
                     assumes=["at most one SCM_RIGHTS control message per recvmsg", "each control message lies inside the buffer offered (Linux adjusts cmsg_len on truncation)"],
                     bounds=f"caller capacity {nfd} descriptors; 0..2 control messages with symbolic level/type/payload length; MSG_CTRUNC symbolic; bytes read -1..4",
                     shape=f"receive with capacity {nfd}", cost=1 + nfd))
    return J
