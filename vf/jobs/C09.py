"""C09 — only the addressee of a pending call can answer it, once."""
META = {
    "explanation": "One-step checks of the real pending-reply book-keeping in bus/connection.c (on the real bus/expirelist.c and dbus-list.c, with the real "
                   "BusTransaction cancel-hook machinery): from any duplicate-free list of P open slots, expect / check / disconnect / expire behave as a set of "
                   "(caller, callee, serial) triples prescribes, including transactional undo.",
    "outside": ["timer arithmetic of do_expiration_with_monotonic_time (floating point)", "the policy side of requested_reply (C06.a/b) and the gate plumbing (bus.c)",
                "more than 3 open slots / 3 connections"],
}
ENV = ["assert_stubs.c", "mem.c", "pool_lock.c", "msg_model.c", "msg_build.c"]
REAL = ["dbus/dbus-list.c"]
def jobs(tier):
    J = []
    names = {0: "expect", 1: "check", 2: "disconnect", 3: "expire"}
    for op in (0, 1, 2, 3):
        for p in (0, 1, 2, 3):
            if op == 3 and p == 0: continue
            tiers = ("quick", "thorough") if p <= 2 else ("thorough",)
            J.append(Job(name=f"{names[op]}.P{p}", group="C09.step", harness="harness/C09_pending.c", defines={"P": p, "OP": op}, real=REAL, env=ENV,
                         checks="assert", unwind=7, unwindset=["strcmp.0:48"], timeout=900, tiers=tiers,
                         encodes=["bus_connections_expect_reply", "bus_connections_check_reply", "bus_connection_drop_pending_replies", "bus_pending_reply_expired",
                                  "bus_pending_reply_send_no_reply", "bus_transaction_send_from_driver", "bus_transaction_send", "bus_transaction_add_cancel_hook",
                                  "bus_transaction_execute_and_free", "bus_transaction_cancel_and_free", "cancel_pending_reply", "cancel_check_pending_reply",
                                  "bus_expire_list_add", "bus_expire_list_unlink", "bus_expire_list_add_link"],
                         stubs=["DBusMessage = record (R8) incl. construction", "DBusTimeout = enabled/interval record", "dbus_connection_send_preallocated = ghost send log",
                                "bus_context_check_security_policy = symbolic allow/deny", "monitors list empty"],
                         bounds=f"{p} open slots over 3 connections, serials 32-bit, limit 1..INT_MAX; commit/cancel symbolic",
                         shape=f"{names[op]}, {p} slots", cost=1 + p))
    J.append(Job(name="error_reply", group="C05.error_reply", harness="harness/C09_pending.c", defines={"P": 0, "OP": 4}, real=REAL, env=ENV,
                 checks="assert", unwind=7, unwindset=["strcmp.0:48"], timeout=600,
                 encodes=["bus_transaction_send_error_reply", "bus_transaction_send_from_driver", "bus_transaction_send", "bus_transaction_execute_and_free", "connection_execute_transaction"],
                 stubs=["DBusMessage = record (R8) incl. construction", "dbus_connection_send_preallocated = ghost send log", "bus_context_check_security_policy = symbolic allow/deny"],
                 bounds="one failed message with symbolic header record, error reply to one of 3 connections", shape="error reply through the real transaction"))
    for p in (1, 2, 3):
        J.append(Job(name=f"expiry_pass.P{p}", group="C09.expiry", harness="harness/C09_expire.c", defines={"P": p}, real=REAL, env=["assert_stubs.c", "mem.c", "pool_lock.c"],
                     checks="assert", unwind=6, timeout=600, encodes=["do_expiration_with_monotonic_time"],
                     stubs=["expire function = ghost counter, may fail at the k-th call", "DBusTimeout = record"],
                     bounds=f"{p} items, each immediate / 50 s old / 1 s old; timeout infinite or 25 s; now = 100 s; failing call index symbolic",
                     shape=f"expiry pass over {p} items", cost=p))
    # the gate that opens and consults reply slots (bus_context_check_security_policy, job shared with C06.f): a reply slot is opened only for a method call
    # that passed every check, and the pending-reply table is consulted exactly once per reply
    import importlib.util, os
    sp6 = importlib.util.spec_from_file_location("vfjobs_x_C06", os.path.join(os.path.dirname(__file__), "C06.py")); m6 = importlib.util.module_from_spec(sp6); m6.Job = Job; sp6.loader.exec_module(m6)
    for j in m6.jobs(tier):
        if j.name == "f.gate": j.group = "C09.gate"; j.name = "gate.reply_slots"; J.append(j)
    return J
