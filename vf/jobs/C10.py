"""C10 — one misbehaving client cannot crash, corrupt or stall the bus (decided part: no crash / memory-safety / assertion / non-termination on attacker-controlled kernels)."""
import importlib.util, os
META = {
    "explanation": "C10's obligations are the memory-safety, dbus-assertion and unwinding (termination) obligations of every kernel that touches bytes chosen by a client: the "
                   "message framing and body validators, the byte-order converter, the name/path/signature/UTF-8 predicates, the match-rule matcher, one step of the SASL server, "
                   "and the dispatch skeleton (an unauthenticated or monitoring sender is disconnected and nothing of its message is routed), plus the transport skeletons of C11 (a corrupt stream disconnects that transport after delivering the complete messages before it; nothing is read into the loader before authentication). The jobs are the same harnesses "
                   "as in C01/C02/C07/C08/C16/C03/C11, re-run here so that C10's evidence is self-contained.",
    "outside": ["bounded latency for bystanders, main-loop fairness, floods, many sockets, half-sent messages followed by silence: these need a running process and a clock and are "
                "not addressable by bounded symbolic execution of kernels", "the accept loop itself (poll / accept on the listening sockets); the gate, the accept step and the expiry pass are checked as single steps"],
}
def _other(pid):
    p = os.path.join(os.path.dirname(__file__), pid + ".py")
    spec = importlib.util.spec_from_file_location("vfjobs_x_" + pid, p); m = importlib.util.module_from_spec(spec); m.Job = Job; spec.loader.exec_module(m); return m
PICK = {
    "C01": lambda n, t: n == "a.fixed_header" or (n.startswith("b.body.") and (t == "thorough" or any(n.startswith("b.body." + s + ".") for s in ("u", "s", "o", "ay", "au", "ab", "(sy)", "us", "v[u]", "v[s]")))),
    "C02": lambda n, t: any(n.startswith("b.byteswap." + s + ".") for s in ("h", "yu", "au", "s")) or t == "thorough",
    "C07": lambda n, t: n.startswith("a.matcher"),
    "C08": lambda n, t: True,
    "C16": lambda n, t: (n.startswith("a.") and n.endswith(".N8")) or n == "a.range" or n.startswith("d.utf8.N6") or n.startswith("c.signature.N5") or t == "thorough",
    "C03": lambda n, t: n.startswith("dispatch."),
    "C11": lambda n, t: n.startswith("L4.") or n.startswith("L5.") or n.startswith("L2."),
    "C13": lambda n, t: n.startswith("connection.accept") or n.startswith("accept_gate."),
}
def jobs(tier):
    J = []
    J.append(Job(name="connection.teardown", group="C10.accounting", harness="harness/C09_pending.c", defines={"P": 0, "OP": 11}, real=["dbus/dbus-list.c"],
                 env=["assert_stubs.c", "mem.c", "pool_lock.c", "msg_model.c", "msg_build.c"], checks="assert", unwind=7, unwindset=["strcmp.0:48"], timeout=300,
                 encodes=["bus_connection_disconnected", "bus_connection_remove_transactions", "adjust_connections_for_uid", "bus_connection_drop_pending_replies"],
                 stubs=["libdbus connection setters = no-ops", "accept-watch re-evaluation = ghost counter", "per-user table = ghost counter"],
                 bounds="one connection without names, rules or monitor role, incomplete or completed; all counters symbolic up to 1000", shape="connection teardown"))
    J.append(Job(name="driver.table_walks", group="C10.driver", harness="harness/C13_addmatch.c", defines={"OP": 2}, real=["dbus/dbus-string.c"], env=["assert_stubs.c", "mem.c", "msg_model.c"],
                 checks="std", unwind=40, unwindset=["strcmp.0:48"], timeout=300, extra=["--object-bits", "11"], encodes=["interface_handler_find_property", "interface_handlers[] / message_handlers / property_handlers tables"],
                 bounds="every exported interface x every property name of 3 arbitrary bytes; CBMC pointer checks on", shape="driver table walks"))
    TC = ["40 s / 10 s vs 30 s", "40 s / 35 s vs 30 s", "5 s / 2 s vs 30 s", "30.000 s / 29.999 s vs 30 s", "30.001 s / 30.000 s vs 30 s", "1 ms / 0 ms vs 1 ms"]
    for k, t in enumerate(TC):
        J.append(Job(name=f"expire_incomplete.T{k}", group="C10.expire", harness="harness/C09_pending.c", defines={"P": 0, "OP": 8, "TCASE": k}, real=["dbus/dbus-list.c"],
                     env=["assert_stubs.c", "mem.c", "pool_lock.c", "msg_model.c", "msg_build.c"], checks="assert", unwind=7, unwindset=["strcmp.0:48"], timeout=300,
                     encodes=["bus_connections_expire_incomplete", "bus_expire_timeout_set_interval"], stubs=["clock, auth_timeout = the job's concrete values", "dbus_connection_close = ghost mask", "authentication state = symbolic"],
                     assumes=["incomplete list is oldest-first (bus_connections_setup_connection appends)"],
                     bounds=f"two incomplete connections aged {t} auth_timeout (concrete: double arithmetic is not decided symbolically here); authentication state and timer state symbolic",
                     shape=f"expire incomplete, ages {t}"))
    for pid, pick in PICK.items():
        for j in _other(pid).jobs(tier):
            if tier in j.tiers and pick(j.name, tier):
                j.group = f"C10.{pid}"; j.name = f"{pid}.{j.name}"; j.termination_is_property = True; j.defines = dict(j.defines, VF_SKIP_FINDINGS=1)
                J.append(j)
    return J
