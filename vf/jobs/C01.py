"""C01 — untrusted bytes become a message only if spec-valid, and always safely."""
META = {
    "explanation": "Every attacker-facing kernel of the message parser is symbolically executed on arbitrary bytes with CBMC's memory-safety checks, dbus's own "
                   "assertions and unwinding assertions (termination within the bound) as obligations, and its accept/reject verdict (and decoded values) "
                   "asserted equal to an independent index-based decoder written from the specification's marshalling chapter.",
    "outside": ["bodies longer than the stated N", "signatures outside the listed family", "nesting deeper than the recursion bound",
                "the 128 MiB regime except through the full-width arithmetic of C01.a", "dbus_message_demarshal plumbing and dbus_message_iter_* wrappers"],
}
ENV = ["assert_stubs.c", "mem.c"]
def jobs(tier):
    J = []
    J.append(Job(name="a.fixed_header", group="C01.a", harness="harness/C01_fixed_header.c",
                 real=["dbus/dbus-marshal-header.c", "dbus/dbus-marshal-basic.c", "dbus/dbus-string.c"], env=ENV, unwind=18, timeout=600,
                 encodes=["_dbus_header_have_message_untrusted", "_dbus_marshal_read_uint32", "_dbus_unpack_uint32", "_dbus_string_get_byte"],
                 bounds="16 arbitrary bytes; max_message_length any value in [0, INT32_MAX/2); available length any int >= 16 (two lengths); no size bound",
                 shape="fixed 16-byte header", termination_is_property=True))
    # ---- C01.b: body validator per concrete signature
    BODY_REAL = ["dbus/dbus-marshal-validate.c", "dbus/dbus-marshal-recursive.c", "dbus/dbus-marshal-basic.c", "dbus/dbus-string.c", "dbus/dbus-signature.c"]
    ART = [(r"arithmetic overflow on signed - in end - p", "CBMC models the pointer difference end - p (p up to 7 bytes past end, inside the buffer) as an unsigned subtraction; "
            "argument of a _dbus_verbose call only; triaged by reading, see DESIGN.md findings")]
    fam_quick = [("y", 12), ("b", 12), ("n", 12), ("q", 12), ("i", 12), ("u", 12), ("h", 12), ("x", 16), ("t", 16), ("d", 16),
                 ("s", 12), ("s", 16), ("o", 12), ("g", 10), ("yu", 12), ("us", 12), ("sy", 12), ("ay", 12), ("ab", 12), ("au", 12), ("an", 12), ("at", 16),
                 ("(yu)", 12), ("(sy)", 12), ("as", 9), ("ao", 9), ("a{ys}", 9), ("a(yy)", 10), ("aay", 9)]
    # thorough-only shapes: each one was decided within its cap with 8 jobs in parallel on the 62 GB sandbox; the shapes tried and dropped
    # (no verdict: ag N>=6, symbolic-signature variants v/yv/a(yv)/a{sv} N>=7, aay N12, aau N>=10, a{su} N12) are listed in DESIGN.md
    fam_thorough = [("as", 12), ("ao", 12), ("a{ys}", 12), ("a(us)", 12), ("su", 16), ("ss", 14), ("(u(yy))", 16), ("(ys)", 14), ("a{su}", 9), ("aau", 8)]
    for fam, tiers in ((fam_quick, ("quick", "thorough")), (fam_thorough, ("thorough",))):
        for sig, n in fam:
            heavy = any(c in sig for c in "v") or sig.startswith("aa") or sig in ("as", "ao", "ag", "a{ys}", "a{su}", "a{sv}", "a(us)")
            J.append(Job(name=f"b.body.{sig}.N{n}", group="C01.b", harness="harness/C01_body.c", defines={"SIG": '"' + sig + '"', "N": n},
                         real=BODY_REAL, env=ENV + ["list_lifo.c"], unwind=n + 3, unwindset=["validate_body_helper:4", "ref_value:4"], extra=["--object-bits", "11"] if sig in ("s", "us", "sy") else [],
                         timeout=600 if "quick" in tiers else 1800, mem_gb=(26 if sig == "ag" else 16) if heavy or sig == "ag" else 8, tiers=tiers, ignore=ART, termination_is_property=True,
                         encodes=["_dbus_validate_body_with_reason", "validate_body_helper", "_dbus_type_reader_init_types_only", "_dbus_type_reader_recurse",
                                  "_dbus_type_reader_next", "_dbus_type_reader_get_current_type", "_dbus_type_reader_get_element_type", "_dbus_validate_path",
                                  "_dbus_string_validate_utf8", "_dbus_validate_signature_with_reason", "_dbus_unpack_uint32", "_dbus_first_type_in_signature"],
                         stubs=["DBusList-as-stack in the signature validator = array LIFO (R6)"],
                         bounds=f"signature '{sig}' (concrete), every body of 0..{n} arbitrary bytes, both byte orders; loops unwound {n+3}, validator recursion <= 4 (unwinding assertions on)",
                         shape=f"body of signature {sig}", cost=(50 if heavy else 1) + n))
    # VARIANT bodies, split by the (concrete) contained signature
    for vsig, n, vt in (("y", 10, 0), ("u", 12, 0), ("s", 12, 0), ("ay", 12, 0)):   # v[(yy)] N8 and v[v] N5: no verdict in 22 / 40+ min, not registered
        J.append(Job(name=f"b.body.v[{vsig}].N{n}", group="C01.b", harness="harness/C01_body.c", defines={"SIG": '"v"', "N": n, "VSIG": '"' + vsig + '"'},
                     real=BODY_REAL, env=ENV + ["list_lifo.c"], unwind=n + 3, unwindset=["validate_body_helper:4", "ref_value:4"], timeout=3600 if vt else 600, mem_gb=16,
                     tiers=("thorough",) if vt else ("quick", "thorough"), ignore=ART, termination_is_property=True, encodes=["validate_body_helper (VARIANT branch)", "_dbus_type_reader_init_types_only"],
                     bounds=f"signature 'v' whose contained signature is '{vsig}' (concrete), value bytes arbitrary, body length 0..{n}, both byte orders",
                     shape=f"variant containing {vsig}", cost=20 + n))
    # C01.d (part): mandatory header fields per message type
    J.append(Job(name="d.mandatory_fields", group="C01.d", harness="harness/C01_mandatory.c", real=["dbus/dbus-marshal-recursive.c", "dbus/dbus-marshal-basic.c", "dbus/dbus-signature.c", "dbus/dbus-list.c"],
                 env=ENV + ["memfuncs.c", "pool_lock.c"], checks="assert", unwind=14, timeout=300, extra=["--object-bits", "11"], encodes=["check_mandatory_fields", "_dbus_header_get_message_type"],
                 bounds="message type 1..255; any presence pattern of the 10 known header fields (cached positions arbitrary)", shape="mandatory header fields"))
    return J
