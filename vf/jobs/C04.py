"""C04 — name ownership follows the specification's state machine."""
META = {
    "explanation": "One-step refinement: from an arbitrary representation-invariant-satisfying owner queue of concrete length QN (contents symbolic) the real "
                   "bus_registry_acquire_service / _release_service / bus_service_remove_owner (bus/services.c on the real dbus-list.c) is executed once with "
                   "symbolic requester, full 32-bit flags, symbolic name limit and policy answer; reply, queue order, per-entry flags, signal multiset, "
                   "owned-name counters and accessors are asserted equal to a reference state machine transcribed from the specification. "
                   "Histories of any length are covered by induction on the invariant (distinct connections, only the primary may carry DO_NOT_QUEUE), which "
                   "is asserted on the post-state.",
    "outside": ["queues longer than 3 before the step", "several names at once (coupled only through the symbolic owned-name counter)",
                "DBusHashTable (2-slot association model, R7)", "order of the three signals relative to each other (compared as a multiset; FIFO delivery is C05.c)"],
}
ENV = ["assert_stubs.c", "mem.c", "memfuncs.c"]
REAL = ["dbus/dbus-list.c", "dbus/dbus-string.c", "dbus/dbus-marshal-validate.c"]
def jobs(tier):
    J = []
    for op, nm, fn in ((0, "request", "bus_registry_acquire_service"), (1, "release", "bus_registry_release_service"), (2, "disconnect", "bus_service_remove_owner")):
        for qn in (0, 1, 2, 3):
            if op == 2 and qn == 0: continue
            J.append(Job(name=f"{nm}.Q{qn}", group="C04.step", harness="harness/C04_services.c", defines={"QN": qn, "OP": op},
                         real=REAL, env=ENV, checks="assert", unwind=8, unwindset=["vf_err_is.0:66", "memcpy.0:10", "memmove.0:10", "memmove.1:10"], timeout=900,
                         encodes=[fn, "bus_service_add_owner", "bus_service_swap_owner", "bus_service_remove_owner", "bus_registry_ensure",
                                  "add_restore_ownership_to_transaction", "add_cancel_ownership_to_transaction", "bus_owner_unref",
                                  "_dbus_list_append", "_dbus_list_insert_after", "_dbus_list_unlink", "_dbus_validate_bus_name"],
                         stubs=["driver signal senders = ghost event log", "transaction cancel hooks recorded, commit = free data", "hash = 2-slot model",
                                "mempools = typed calloc", "policy/limit = symbolic"],
                         bounds=f"queue length {qn} before the step; 4 connections; flags full 32-bit; limit 1..INT_MAX; other-names counter 0..100000 per connection",
                         shape=f"{nm}, queue length {qn}", cost=1 + qn))
    return J
