"""C12 — header edits keep a message valid and touch nothing else."""
META = {
    "explanation": "One edit from an arbitrary header of a concrete layout (shape) with symbolic contents, on the real header / type-reader / type-writer / string code, compared byte for byte "
                   "with an independent canonical encoder applied to the edited field list, plus read-back of every field through the real accessor. One step from any canonical header "
                   "gives, by induction, every finite edit sequence within the layout family (the post-state is again the canonical encoding of a field list).",
    "outside": ["allocation failure inside DBusString growth during an edit (pool buffers never grow; the failing allocations are the fix-up list and its links; string growth under OOM is C14.string)", "layouts outside the listed family: more than 5 fields, values longer than 11 bytes, headers beyond 160 bytes",
                "non-canonical but valid received headers (a received header has a unique encoding for a given field order, so none exist besides field order, which the family varies)",
                "the dbus_message_set_* wrappers' argument validation (C16) and the locked-message precondition", "body bytes (kept in a separate DBusString that header edits never receive)"],
}
SHAPES = {0: "PATH(2) MEMBER(1) DESTINATION(3) SIGNATURE(1)", 1: "DESTINATION(5) PATH(1) unknown200:y MEMBER(2)", 2: "unknown200:y PATH(1) unknown201:s(2) SENDER(2) unknown130:u",
          3: "REPLY_SERIAL ERROR_NAME(3) SENDER(4)", 4: "no fields", 5: "MEMBER(1) CONTAINER_INSTANCE(3) INTERFACE(3) UNIX_FDS PATH(1)", 6: "unknown11:s(1) unknown127:g(2) unknown128:y unknown255:u"}
REAL = ["dbus/dbus-marshal-recursive.c", "dbus/dbus-signature.c", "dbus/dbus-list.c"]
ENC = ["_dbus_header_set_field_basic", "_dbus_header_delete_field", "_dbus_header_remove_unknown_fields", "_dbus_header_get_field_basic", "_dbus_header_get_field_raw", "_dbus_header_cache_revalidate",
       "reserve_header_padding", "correct_header_padding", "find_field_for_modification", "set_basic_field", "write_basic_field",
       "_dbus_type_reader_set_basic", "reader_set_basic_variable_length", "reader_set_basic_fixed_length", "_dbus_type_reader_delete", "replacement_block_init", "replacement_block_replace",
       "_dbus_type_writer_write_reader_partial", "writer_write_reader_helper", "apply_and_free_fixups", "_dbus_type_writer_append_array", "_dbus_type_writer_recurse", "_dbus_type_writer_unrecurse",
       "_dbus_type_writer_write_basic", "_dbus_marshal_write_basic", "_dbus_marshal_set_basic", "_dbus_marshal_read_basic", "_dbus_string_replace_len", "_dbus_string_insert_alignment", "_dbus_string_delete"]
def job(op, shape, order, field=0, nl=0, tiers=("quick", "thorough"), koom=0, prefill=0):
    opn = {0: "strip", 1: f"set{field}.len{nl}", 2: f"delete{field}", 3: f"setu{field}", 4: "far"}[op]
    what = {0: "strip unknown fields", 1: f"set string-like field {field} to a {nl}-byte value", 2: f"delete field {field}", 3: f"set uint32 field {field}",
            4: "no edit; the reader's reported value positions are shifted by a symbolic multiple of 8 in [0, 2^27 - 256] (a header up to the message size limit): every field is found at exactly that position"}[op]
    return Job(name=f"{'oom' + str(koom) if koom else ('cached' if prefill else 'edit')}.{opn}.S{shape}.{'le' if order == 'l' else 'be'}", group="C12.oom" if koom else "C12.edit", harness="harness/C12_edit.c",
               defines=dict({"OP": op, "SHAPE": shape, "ORDER": "'%s'" % order, "FIELD": field, "NL": nl}, **({"KOOM": koom} if koom else {}), **({"PREFILL": 1} if prefill else {}), **({"POSOFF": 1} if op == 4 else {})), real=REAL, env=["assert_stubs.c", "mem.c", "memfuncs.c", "pool_lock.c"],
               checks="assert", unwind=170, timeout=600, tiers=tiers,
               extra=["--object-bits", "12", "--max-field-sensitivity-array-size", "200"], encodes=ENC,
               stubs=["_dbus_string_init = fixed 160-byte pool buffers (R19); all other DBusString code real", "strlen in marshal_string / marshal_signature = checked oracle reading the wire length prefix (its answer is an obligation)"]
                     + (["_dbus_type_reader_get_value_pos as called from dbus-marshal-header.c = the real function's result plus a symbolic offset K (R24: a header whose fields lie K bytes further along)"] if op == 4 else []),
               assumes=["no allocation failure", "string-like values contain no NUL (C strings)"],
               bounds=(f"allocation number {koom} of the edit fails; " if koom else "") + ("field cache filled by a getter before the edit; " if prefill else "") + f"byte order {'little' if order == 'l' else 'big'}; header layout [{SHAPES[shape]}] with every value byte, flags, type, serial and body length symbolic; edit: {what}",
               shape=f"{what} on layout {shape}")
def jobs(tier):
    J = []
    k = 0
    for s in SHAPES:
        for o in "lB":
            q = ("quick", "thorough") if (k % 2 == 0) else ("thorough",); k += 1
            J.append(job(0, s, o, tiers=("quick", "thorough")))
            for f in (6, 1, 8, 3, 10, 7):
                for nl in (1, 4, 8):
                    J.append(job(1, s, o, f, nl, tiers=("quick", "thorough") if (f in (6, 1, 8) and nl in (1, 8) and o == "lB"[(s + f) % 2]) else ("thorough",)))
            for f in (1, 3, 6, 7, 8, 5, 10):
                J.append(job(2, s, o, f, tiers=("quick", "thorough") if o == "lB"[(s + f) % 2] else ("thorough",)))
            for f in (5, 9):
                J.append(job(3, s, o, f, tiers=("quick", "thorough") if o == "lB"[(s + f) % 2] else ("thorough",)))
    # ---- far headers: field positions anywhere up to the message size limit survive the field-position cache (seed C02-2: position narrowed to 16 bits)
    FARQ = ((0, "l"), (5, "B"), (3, "l"), (2, "B"))
    for s_ in SHAPES:
        for o in "lB":
            J.append(job(4, s_, o, tiers=("quick", "thorough") if (s_, o) in FARQ else ("thorough",)))
    # ---- the same kinds of edit from a state in which a getter has filled the field-position cache (stale cache entries must not survive an edit)
    for s_, o, op, f, nl in ((0, "l", 2, 1, 0), (0, "B", 2, 3, 0), (1, "l", 2, 6, 0), (5, "B", 2, 3, 0), (5, "l", 2, 10, 0), (3, "B", 2, 5, 0), (0, "l", 1, 1, 8), (1, "B", 1, 6, 1), (5, "l", 1, 3, 8), (2, "B", 0, 0, 0), (1, "l", 0, 0, 0), (3, "l", 3, 5, 0)):
        J.append(job(op, s_, o, f, nl, prefill=1))
    # ---- the same edits with one failing allocation (C14 for header edits; found F15): a failed edit leaves length, padding and every byte as they were
    for s_, o, op, f, nl in ((0, "l", 2, 3, 0), (0, "B", 1, 6, 8), (0, "l", 1, 7, 4), (1, "B", 0, 0, 0), (1, "l", 2, 1, 0), (2, "l", 0, 0, 0), (2, "B", 1, 7, 8), (3, "l", 2, 4, 0), (3, "B", 3, 5, 0),
                             (5, "l", 1, 10, 8), (5, "B", 2, 2, 0), (6, "l", 0, 0, 0), (4, "l", 1, 6, 4)):
        for k in (1, 2, 3):
            J.append(job(op, s_, o, f, nl, koom=k))
    return J
