"""C05 — unicast messages reach exactly the current owner, once, in order; else exactly one error."""
import importlib.util, os
META = {
    "explanation": "Path-complete check of the real bus_dispatch / bus_dispatch_matches / send_one_message (bus/dispatch.c) with every callee an outcome stub: the addressed "
                   "recipient is the current primary owner, it is sent the message at most once and only after its policy allowed it, a refused or undeliverable call "
                   "is delivered to no one and earns its sender an error, the transaction is executed xor cancelled exactly once.",
    "outside": ["real sockets, slow readers, libdbus's outgoing queue", "ordering across several bus_dispatch invocations (each runs to completion single-threaded)",
                "that body and header fields arrive intact (C02/C12)"],
}
def _other(pid):
    p = os.path.join(os.path.dirname(__file__), pid + ".py")
    spec = importlib.util.spec_from_file_location("vfjobs_x_" + pid, p); m = importlib.util.module_from_spec(spec); m.Job = Job; spec.loader.exec_module(m); return m
def jobs(tier):
    J = _other("C03").dispatch_jobs("C05.a+b")
    for j in _other("C09").jobs(tier):
        if j.name == "error_reply" or j.name.startswith("expire."):
            j.group = "C05.c+d"; J.append(j)
    # C05.c: per-recipient FIFO and all-or-nothing of one transaction (real bus_transaction_send / execute / cancel), recipients of the three messages are job shape
    for d in ("000", "001", "010", "100", "011", "012", "120", "201"):
        J.append(Job(name=f"transaction_fifo.{d}", group="C05.c", harness="harness/C09_pending.c", defines={"P": 0, "OP": 10, "D0": int(d[0]), "D1": int(d[1]), "D2": int(d[2])}, real=["dbus/dbus-list.c"],
                     env=["assert_stubs.c", "mem.c", "pool_lock.c", "msg_model.c", "msg_build.c"], checks="assert", unwind=7, unwindset=["strcmp.0:48"], timeout=300,
                     encodes=["bus_transaction_send", "bus_transaction_execute_and_free", "bus_transaction_cancel_and_free", "connection_execute_transaction", "connection_cancel_transaction", "message_to_send_free"],
                     stubs=["libdbus send = ghost log of (connection, message)", "preallocated sends = counted blocks"],
                     bounds=f"three messages staged for connections {d[0]}, {d[1]}, {d[2]} in one transaction; execute or cancel symbolic", shape=f"transaction with recipients {d}"))
    return J
