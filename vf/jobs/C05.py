"""C05 — unicast messages reach exactly the current owner, once, in order; else exactly one error."""
import importlib.util, os
META = {
    "explanation": "Path-complete check of the real bus_dispatch / bus_dispatch_matches / send_one_message (bus/dispatch.c) with every callee an outcome stub: the addressed "
                   "recipient is the current primary owner, it is sent the message at most once and only after its policy allowed it, a refused or undeliverable call "
                   "is delivered to no one and earns its sender an error, the transaction is executed xor cancelled exactly once.",
    "outside": ["real sockets, slow readers, libdbus's outgoing queue", "ordering across several bus_dispatch invocations (each runs to completion single-threaded)",
                "FIFO order among several messages staged for one connection in one transaction (only single-message transactions are executed here)", "that body and header fields arrive intact (C02/C12)"],
}
def _other(pid):
    p = os.path.join(os.path.dirname(__file__), pid + ".py")
    spec = importlib.util.spec_from_file_location("vfjobs_x_" + pid, p); m = importlib.util.module_from_spec(spec); m.Job = Job; spec.loader.exec_module(m); return m
def jobs(tier):
    J = _other("C03").dispatch_jobs("C05.a+b")
    for j in _other("C09").jobs(tier):
        if j.name == "error_reply" or j.name.startswith("expire."):
            j.group = "C05.c+d"; J.append(j)
    return J
