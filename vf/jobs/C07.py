"""C07 — broadcasts reach exactly the connections whose match rules match."""
META = {
    "explanation": "match_rule_matches and friends from the real bus/signals.c, symbolically executed on a rule with symbolic flags/attributes and a symbolic "
                   "message, compared with a reference transcribed from the specification's Match Rules table; pointer/bounds checks on.",
    "outside": ["rule text longer than the stated N", "per-interface rule pools held in DBusHashTable (R7)", "argument strings longer than 3 bytes"],
}
ENV = ["assert_stubs.c", "mem.c", "pool_lock.c", "msg_model.c"]
REAL = ["dbus/dbus-list.c", "dbus/dbus-string.c"]
def jobs(tier):
    J = []
    for narg, tiers in ((1, ("quick", "thorough")), (2, ("quick", "thorough"))):
        J.append(Job(name=f"a.matcher.A{narg}", group="C07.a", harness="harness/C07_matcher.c", defines={"NARG": narg}, real=REAL, env=ENV,
                     checks="std", unwind=8, unwindset=["strcmp.0:24", "strlen.0:24", "ref_m_streq.0:24"], timeout=900, tiers=tiers,
                     encodes=["match_rule_matches", "connection_is_primary_owner", "str_has_prefix"],
                     stubs=["message accessors = symbolic record (R8)", "body iterator = cursor over NARG symbolic arguments", "registry ownership = symbolic booleans"],
                     assumes=["message path and rule path/path_namespace values are valid object paths (guaranteed by C01 and by bus_match_rule_parse)"],
                     bounds=f"one rule, all 9 flag bits symbolic, strings <=3 bytes (paths <=4), {narg} arg slot(s): rule value <=2 bytes incl. empty, kinds exact/path/namespace; message arg <=3 bytes incl. empty, type s/o/other",
                     shape=f"matcher, {narg} arg slot(s)", cost=narg * 3))
    for l0, l1 in ((0, 0), (1, 0), (0, 1), (1, 1), (2, 0), (2, 1), (1, 2)):
        J.append(Job(name=f"b.recipients.L{l0}{l1}", group="C07.b", harness="harness/C07_recipients.c", defines={"L0": l0, "L1": l1}, real=REAL, env=ENV,
                     checks="assert", unwind=8, unwindset=["strcmp.0:8"], timeout=600, tiers=("quick", "thorough") if l0 + l1 <= 2 else ("thorough",),
                     encodes=["bus_matchmaker_get_recipients", "get_recipients_from_list", "bus_matchmaker_get_rules", "match_rule_matches"],
                     stubs=["stamp pair = documented test-and-set", "per-interface hash pools empty"],
                     bounds=f"{l0} rule(s) without type + {l1} rule(s) for the message's type, owners among 3 connections, member key / eavesdrop flag symbolic",
                     shape=f"recipient set, pools {l0}+{l1}", cost=1 + l0 + l1))
    for mode, nm, fn in ((0, "remove_by_value", "bus_matchmaker_remove_rule_by_value"), (1, "disconnected", "bus_matchmaker_disconnected"), (2, "add_rule", "bus_matchmaker_add_rule")):
        for l in (0, 1, 2, 3):
            if mode == 1 and l == 0: continue
            J.append(Job(name=f"d.{nm}.L{l}", group="C07.d", harness="harness/C07_remove.c", defines={"L": l, "MODE": mode}, real=REAL, env=ENV,
                         checks="assert", unwind=6, unwindset=["strcmp.0:48"], timeout=900, tiers=("quick", "thorough") if l <= 2 else ("thorough",),
                         encodes=[fn, "match_rule_equal", "bus_matchmaker_remove_rule_link", "rule_list_remove_by_connection", "bus_matchmaker_get_rules", "_dbus_list_remove_link"],
                         stubs=["per-interface hash pools empty (rules without interface only)", "bus_connection_remove_match_rule = ghost counter", "verbose logging compiled out in the harness TU"],
                         bounds=f"pool of {l} rules without interface key; each rule: owner in 2 connections, symbolic subset of {{member, sender, args, eavesdrop}}, strings <=2 bytes, one argN slot with symbolic kind/length/value",
                         shape=f"{nm}, {l} rules", cost=1 + l))
    # C07.e: "RemoveMatch removes one rule equal to its argument or fails with MatchRuleNotFound" as the caller sees it (handler skeleton; found F13)
    J.append(Job(name="e.remove_match.reply", group="C07.e", harness="harness/C13_addmatch.c", defines={"OP": 1}, real=["dbus/dbus-string.c"],
                 env=["assert_stubs.c", "mem.c", "msg_model.c"], checks="assert", unwind=8, unwindset=["strcmp.0:48", "strlen.0:24"], timeout=300,
                 encodes=["bus_driver_handle_remove_match", "bus_driver_send_ack_reply"], stubs=["parser / matchmaker / reply construction = outcome stubs with ghost counters"],
                 assumes=["bus_dispatch answers a handler error other than NoMemory with an error reply in the same transaction (C03/C05 dispatch skeleton)"],
                 bounds="every outcome of parsing, reply construction, reply staging and rule lookup", shape="RemoveMatch reply"))
    # C07.c: value quoting of the rule grammar (tokenizer kernel) against the specification text
    for n in (1, 2, 3, 4, 5, 6, 7):
        J.append(Job(name=f"c.quoting.N{n}", group="C07.c", harness="harness/C07_parse.c", defines={"N": n}, real=["dbus/dbus-list.c"], env=["assert_stubs.c", "mem.c", "memfuncs.c", "pool_lock.c", "msg_model.c"],
                     checks="assert", unwind=n + 3, unwindset=["strcmp.0:48", "strlen.0:8", "memcpy.0:40", "memmove.0:40", "memmove.1:40", f"find_value.0:{2 * n + 3}"], timeout=600, extra=["--object-bits", "11"],
                     encodes=["find_value", "_dbus_string_append_byte"], stubs=["_dbus_string_init = pool buffers (R19)"],
                     bounds=f"every value text of exactly {n} non-NUL bytes (full alphabet)", shape=f"value text of {n} bytes"))
    # C07.c: pair count of the tokenizer (found F19: more than 16 pairs were silently dropped)
    for t, tr in ((1, 0), (16, 0), (16, 1), (17, 0), (40, 0), (80, 1), (81, 0)):
        J.append(Job(name=f"c.tokens.T{t}" + (".trail" if tr else ""), group="C07.c", harness="harness/C07_tokens.c", defines={"T": t, "TRAIL": tr}, real=["dbus/dbus-list.c"], env=["assert_stubs.c", "memfuncs.c", "pool_lock.c", "msg_model.c"],
                     checks="assert", unwind=4 * t + 8, unwindset=["strcmp.0:48"], timeout=600, extra=["--object-bits", "11", "--max-field-sensitivity-array-size", "400"],
                     encodes=["tokenize_rule", "find_key", "find_value"], stubs=["_dbus_string_init = pool buffers (R19); stolen token strings copied to a static pool"],
                     bounds=f"concrete rule text of {t} one-letter key=value pairs" + (" followed by a blank" if tr else ""), shape=f"tokenizer, {t} pairs"))
    return J
