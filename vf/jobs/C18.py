"""C18 — a monitor sees everything that matches and can affect nothing (placement part)."""
import importlib.util, os
META = {
    "explanation": "On every path of the real bus_dispatch / bus_dispatch_matches / send_one_message: monitors are offered the message (bus_transaction_capture) after "
                   "the sender was stamped and before the policy gate can refuse it; refused broadcasts are captured as error replies; a monitor that sends anything is "
                   "disconnected and nothing of its message is routed.",
    "outside": ["bus_transaction_capture itself (monitor list x matchmaker)", "bus_connection_be_monitor (release of names, rules, pending replies)",
                "end-to-end equality of other clients' observations with and without monitors"],
}
def _other(pid):
    p = os.path.join(os.path.dirname(__file__), pid + ".py")
    spec = importlib.util.spec_from_file_location("vfjobs_x_" + pid, p); m = importlib.util.module_from_spec(spec); m.Job = Job; spec.loader.exec_module(m); return m
def jobs(tier):
    return _other("C03").dispatch_jobs("C18.placement")
