"""C18 — a monitor sees everything that matches and can affect nothing (placement part)."""
import importlib.util, os
META = {
    "explanation": "On every path of the real bus_dispatch / bus_dispatch_matches / send_one_message: monitors are offered the message (bus_transaction_capture) after "
                   "the sender was stamped and before the policy gate can refuse it; refused broadcasts are captured as error replies; a monitor that sends anything is "
                   "disconnected and nothing of its message is routed.",
    "outside": [
                "end-to-end equality of other clients' observations with and without monitors"],
}
def _other(pid):
    p = os.path.join(os.path.dirname(__file__), pid + ".py")
    spec = importlib.util.spec_from_file_location("vfjobs_x_" + pid, p); m = importlib.util.module_from_spec(spec); m.Job = Job; spec.loader.exec_module(m); return m
def jobs(tier):
    J = _other("C03").dispatch_jobs("C18.placement")
    ENV = ["assert_stubs.c", "mem.c", "pool_lock.c", "msg_model.c", "msg_build.c"]
    for mon, sel in ((0, 0), (1, 0), (1, 1), (2, 2), (3, 0), (3, 1), (3, 2), (3, 3)):
        J.append(Job(name=f"capture.M{mon}S{sel}", group="C18.capture", harness="harness/C09_pending.c", defines={"P": 0, "OP": 5, "MON": mon, "SEL": sel}, real=["dbus/dbus-list.c"], env=ENV,
                     checks="assert", unwind=7, unwindset=["strcmp.0:48"], timeout=600, encodes=["bus_transaction_capture", "bus_transaction_send", "bus_transaction_execute_and_free"],
                     stubs=["monitors' matchmaker = selection given by the shape", "send = ghost log"], bounds=f"monitors present mask {mon}, selected mask {sel}; message symbolic",
                     shape=f"capture, monitors {mon}, selected {sel}"))
    for p in (0, 1, 2):
        J.append(Job(name=f"be_monitor.P{p}", group="C18.be_monitor", harness="harness/C09_pending.c", defines={"P": p, "OP": 6}, real=["dbus/dbus-list.c"], env=ENV, checks="assert",
                     unwind=7, unwindset=["strcmp.0:48"], timeout=600, encodes=["bus_connection_be_monitor", "bcd_add_monitor_rules", "bcd_drop_monitor_rules", "bus_connection_drop_pending_replies"],
                     stubs=["bus_service_remove_owner = ghost, may fail at call k", "matchmakers = ghost counters"],
                     bounds=f"0..2 owned names, ordinary rules present or not, {p} pending replies, rule addition / name release may fail", shape=f"become monitor, {p} pending replies"))
    J.append(Job(name="error_reply.captured", group="C18.capture", harness="harness/C09_pending.c", defines={"P": 0, "OP": 12}, real=["dbus/dbus-list.c"], env=ENV, checks="assert",
                 unwind=7, unwindset=["strcmp.0:48"], timeout=300, encodes=["bus_transaction_send_error_reply", "bus_transaction_send_from_driver", "bus_transaction_capture", "bus_transaction_send"],
                 stubs=["monitors' matchmaker selects the monitor", "libdbus send = ghost log"], bounds="one monitor; the failed call's sender connected or already gone (symbolic)", shape="error reply with a monitor attached"))
    return J
