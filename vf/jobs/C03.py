"""C03 — the bus stamps the true sender; unique names are unique forever."""
META = {
    "explanation": "bus_dispatch / bus_dispatch_matches / send_one_message of the real bus/dispatch.c are symbolically executed with every callee a stub whose outcome is a "
                   "solver variable; a ghost event trace lets the assertions speak about ALL paths: header sanitising and sender stamping precede every routing action, etc.",
    "outside": ["that receivers see the stamped bytes on the socket", "unique-name minting arithmetic beyond C03.b"],
}
def dispatch_jobs(group):
    J = []
    for r in (0, 1, 2):
        J.append(Job(name=f"dispatch.R{r}", group=group, harness="harness/C03_dispatch.c", defines={"R": r}, real=["dbus/dbus-list.c", "dbus/dbus-string.c"],
                     env=["assert_stubs.c", "mem.c", "pool_lock.c", "msg_model.c"], checks="assert", unwind=9, unwindset=["strcmp.0:50", "vf_streq.0:50", "strlen.0:50"], timeout=600,
                     encodes=["bus_dispatch", "bus_dispatch_matches", "send_one_message"],
                     stubs=["every callee of dispatch.c = outcome stub (may fail / deny / OOM) + ghost event trace", "DBusMessage = record (R8)"],
                     bounds=f"one message with symbolic header record from a symbolic sender (active / inactive / monitor); matchmaker returns {r} recipient(s); every callee outcome symbolic",
                     shape=f"dispatch with {r} match recipient(s)", cost=1 + r))
    return J
def jobs(tier):
    J = dispatch_jobs("C03.a")
    J.append(Job(name="b.unique_name_minting", group="C03.b", harness="harness/C03_hello.c", defines={"MODE": 0}, env=["assert_stubs.c"], checks="assert",
                 unwind=5, extra=["--nondet-static"], timeout=300, encodes=["create_unique_client_name"],
                 stubs=["DBusString appends = ghost record of the integers", "registry lookup = up to 2 collisions"],
                 assumes=["static counters arbitrary (--nondet-static); the function itself re-establishes major >= 1, minor >= 0 before use"],
                 bounds="two consecutive mints from arbitrary 32-bit counter values (signed wrap-around of the minor counter at INT_MAX modelled as two's complement), <= 2 name collisions per mint",
                 shape="two consecutive mints"))
    J.append(Job(name="c.hello_once", group="C03.c", harness="harness/C03_hello.c", defines={"MODE": 1}, env=["assert_stubs.c"], checks="assert",
                 unwind=5, unwindset=["strcmp.0:50"], extra=["--nondet-static"], timeout=300, encodes=["bus_driver_handle_hello", "create_unique_client_name", "bus_driver_send_welcome_message"],
                 stubs=["limits / complete / welcome / ensure = outcome stubs with order stamps"],
                 bounds="one Hello from an active or inactive connection, every callee outcome symbolic", shape="Hello"))
    # C03.d: byte-level effect of the sanitising edits — the C12 harness for stripping unknown fields (codes 11..255 incl. >= 128),
    # deleting CONTAINER_INSTANCE (10) and setting SENDER (7) to a shorter / longer value, re-run under this property
    import importlib.util, os
    p = os.path.join(os.path.dirname(__file__), "C12.py")
    spec = importlib.util.spec_from_file_location("vfjobs_x_C12", p); m = importlib.util.module_from_spec(spec); m.Job = Job; spec.loader.exec_module(m)
    for j in m.jobs("thorough"):
        if j.group == "C12.edit" and (".strip." in j.name or ".delete10." in j.name or ".set7." in j.name):
            j.group = "C03.d"; j.tiers = ("quick", "thorough") if (".strip." in j.name or j.name.endswith(".le")) else ("thorough",); J.append(j)
    return [j for j in J if tier in j.tiers]
