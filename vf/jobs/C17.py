"""C17 — every call awaiting a reply completes exactly once (sequential core)."""
META = {"explanation": "see harness/C17_pending.c", "outside": ["real thread interleavings, condition-variable hand-off in blocking waits", "timer arithmetic", "send path (message marshalling, outgoing queue)"]}
PRE_NAME = ["nothing", "reply", "timeout", "cancel"]; PRE_VAL = [4, 0, 1, 2]
def jobs(tier):
    return [Job(name=f"{'close.after_' + PRE_NAME[c - 1] if c else 'two_events'}.N{n}", group="C17.close" if c else "C17.core", harness="harness/C17_pending.c", defines=dict({"NCALLS": n}, **({"WITH_CLOSE": 1, "PRE": PRE_VAL[c - 1]} if c else {})), real=["dbus/dbus-list.c"],
                env=["assert_stubs.c", "pool_lock.c"], checks="assert", unwind=6, unwindset=["strcmp.0:64", "vf_streq.0:64"], timeout=1200, mem_gb=20,
                encodes=["dbus_connection_dispatch", "complete_pending_call_and_unlock", "_dbus_connection_attach_pending_call_unlocked", "_dbus_connection_detach_pending_call_and_unlock",
                         "free_pending_call_on_hash_removal", "reply_handler_timeout", "dbus_pending_call_cancel", "_dbus_connection_remove_pending_call", "_dbus_pending_call_set_reply_unlocked",
                         "_dbus_pending_call_start_completion_unlocked", "_dbus_pending_call_finish_completion", "_dbus_connection_get_next_client_serial",
                         "_dbus_connection_queue_received_message_link", "_dbus_connection_queue_synthesized_message_link", "connection_timeout_and_complete_all_pending_calls_unlocked (close jobs)", "_dbus_pending_call_queue_timeout_error_unlocked"],
                stubs=["connection lock = ghost flag", "pending_replies = 2-slot int map calling the value-free function", "timeouts = records", "messages = records (R8)", "object tree dispatch = not handled"],
                bounds=f"{n} attached call(s), " + ("first event fixed by the job (" + (PRE_NAME[c - 1] if c else "") + " for call 0), then the peer closes and everything queued is dispatched" if c else "two symbolic events out of REPLY(r: 32-bit) / TIMEOUT(i) / CANCEL(i)"),
                shape=f"{n} calls, " + ("close after " + PRE_NAME[c - 1] if c else "two events")) for n in (1, 2) for c in (0, 1, 2, 3, 4)]
