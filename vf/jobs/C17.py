"""C17 — every call awaiting a reply completes exactly once (sequential core)."""
META = {"explanation": "see harness/C17_pending.c", "outside": ["real thread interleavings, condition-variable hand-off between several blocked threads", "timer arithmetic", "send path (message marshalling, outgoing queue)"]}
PRE_NAME = ["nothing", "reply", "timeout", "cancel"]; PRE_VAL = [4, 0, 1, 2]
def jobs(tier):
    return _core() + _block() + _inf()
def _inf():
    # calls without a timeout (DBUS_TIMEOUT_INFINITE): no timer exists, 'timeout installed' is false from the start — cancel and reply must behave the same
    J = []
    for j in _core():
        if j.name.startswith('two_events.'):
            j.name = j.name.replace('two_events.', 'two_events.inf.'); j.group = 'C17.inf'; j.defines = dict(j.defines, TMO=0x7fffffff)
            j.bounds = j.bounds + '; calls made with DBUS_TIMEOUT_INFINITE'; j.shape = j.shape + ', infinite timeout'; J.append(j)
    return J
def _core():
    return [Job(name=f"{'close.after_' + PRE_NAME[c - 1] if c else 'two_events'}.N{n}", group="C17.close" if c else "C17.core", harness="harness/C17_pending.c", defines=dict({"NCALLS": n}, **({"WITH_CLOSE": 1, "PRE": PRE_VAL[c - 1]} if c else {})), real=["dbus/dbus-list.c"],
                env=["assert_stubs.c", "pool_lock.c"], checks="assert", unwind=6, unwindset=["strcmp.0:64", "vf_streq.0:64"], timeout=1200, mem_gb=20,
                encodes=["dbus_connection_dispatch", "complete_pending_call_and_unlock", "_dbus_connection_attach_pending_call_unlocked", "_dbus_connection_detach_pending_call_and_unlock",
                         "free_pending_call_on_hash_removal", "reply_handler_timeout", "dbus_pending_call_cancel", "_dbus_connection_remove_pending_call", "_dbus_pending_call_set_reply_unlocked",
                         "_dbus_pending_call_start_completion_unlocked", "_dbus_pending_call_finish_completion", "_dbus_connection_get_next_client_serial",
                         "_dbus_connection_queue_received_message_link", "_dbus_connection_queue_synthesized_message_link", "connection_timeout_and_complete_all_pending_calls_unlocked (close jobs)", "_dbus_pending_call_queue_timeout_error_unlocked"],
                stubs=["connection lock = ghost flag", "pending_replies = 2-slot int map calling the value-free function", "timeouts = records", "messages = records (R8)", "object tree dispatch = not handled"],
                bounds=f"{n} attached call(s), " + ("first event fixed by the job (" + (PRE_NAME[c - 1] if c else "") + " for call 0), then the peer closes and everything queued is dispatched" if c else "two symbolic events out of REPLY(r: 32-bit) / TIMEOUT(i) / CANCEL(i)"),
                shape=f"{n} calls, " + ("close after " + PRE_NAME[c - 1] if c else "two events")) for n in (1, 2) for c in (0, 1, 2, 3, 4)]

def _block():
    J = []
    for tmo, tn in ((25000, "t25s"), (0x7fffffff, "inf")):
        for sc in ("R", "NR", "SR", "NSR", "C", "NC", "SC", "RC", "N", "NN", "S", "T", "NT", "ST"):
            if tn == "inf" and (not any(c in sc for c in "RC") or "T" in sc): continue        # an infinite wait on a silent, open connection never returns: no finite run to check
            J.append(Job(name=f"block.{tn}.{sc}", group="C17.block", harness="harness/C17_pending.c", defines={"NCALLS": 1, "WITH_BLOCK": 1, "TMO": tmo, "SCRIPT": '"' + sc + '"'}, real=["dbus/dbus-list.c"],
                         env=["assert_stubs.c", "pool_lock.c"], checks="assert", unwind=6, unwindset=["strcmp.0:64"], extra=["--object-bits", "12"], timeout=900, mem_gb=16,
                         encodes=["_dbus_connection_block_pending_call", "check_for_reply_and_update_dispatch_unlocked", "_dbus_connection_do_iteration_unlocked", "_dbus_connection_acquire_io_path",
                                  "_dbus_connection_release_io_path", "_dbus_connection_get_dispatch_status_unlocked", "notify_disconnected_and_dispatch_complete_unlocked",
                                  "connection_timeout_and_complete_all_pending_calls_unlocked", "complete_pending_call_and_unlock", "generate_local_error_message", "_dbus_connection_flush_unlocked"],
                         stubs=["transport iteration = the job's concrete script (N nothing / S unrelated signal / R the reply / C close / T another thread fires the call's timeout and dispatches it while the lock is dropped), silent afterwards", "monotonic clock = symbolic non-decreasing milliseconds",
                                "reference counts: _dbus_atomic_dec asserts 'not the last reference' and returns that constant", "connection lock / I/O path = ghost flags (single thread)"],
                         assumes=["single thread: nobody else holds the I/O path or dispatches concurrently", "after the script plus one silent iteration a finite timeout has elapsed (loop bound)"],
                         bounds=f"one call with {'an infinite' if tn == 'inf' else 'a 25 s'} timeout; peer script '{sc}'; every clock reading symbolic (0..40 s apart); reply type symbolic",
                         shape=f"blocking wait, timeout {tn}, peer script {sc}"))
    return J
