"""C13 — configured resource limits are never exceeded (one-step induction with symbolic limits)."""
import importlib.util, os
META = {
    "explanation": "For every limit the step that could exceed it is symbolically executed from an arbitrary state with counter n <= L (L symbolic in [1, INT_MAX]); "
                   "the assertion n' <= L after the step, refusal with LimitsExceeded exactly at the limit and 'refusal changes nothing' give the invariant for histories of any length.",
    "outside": ["parsing of <limit> elements", "per-user connection table beyond one uid (hash model)", "incomplete-connection limit (needs the listening-socket watch machinery)",
                "'capacity freed by disconnect becomes usable again' is covered only through the counter decrements in C04/C09 harnesses"],
}
ENV = ["assert_stubs.c", "mem.c", "pool_lock.c", "msg_model.c", "msg_build.c"]
def _other(pid):
    p = os.path.join(os.path.dirname(__file__), pid + ".py")
    spec = importlib.util.spec_from_file_location("vfjobs_x_" + pid, p); m = importlib.util.module_from_spec(spec); m.Job = Job; spec.loader.exec_module(m); return m
def jobs(tier):
    J = []
    J.append(Job(name="match_rules.add_match", group="C13.match_rules", harness="harness/C13_addmatch.c", real=["dbus/dbus-string.c"], env=["assert_stubs.c", "mem.c", "msg_model.c"],
                 checks="assert", unwind=8, unwindset=["strcmp.0:48", "strlen.0:24"], timeout=600,
                 encodes=["bus_driver_handle_add_match", "bus_driver_check_caller_is_privileged", "bus_driver_send_ack_reply"],
                 stubs=["match-rule parser / matchmaker / transaction = outcome stubs with ghost counters"],
                 bounds="limit 1..INT_MAX, current count 0..limit, every callee outcome symbolic", shape="AddMatch at/below the limit"))
    # names per connection: the C04 RequestName step already carries a symbolic limit and counter
    for j in _other("C04").jobs(tier):
        if j.name.startswith("request."):
            j.name = "names." + j.name; j.group = "C13.names"; j.defines = dict(j.defines, VF_SKIP_FINDINGS=1); J.append(j)
    # pending replies per connection: the C09 expect step carries the symbolic limit
    for j in _other("C09").jobs(tier):
        if j.name.startswith("expect."):
            j.name = "pending_replies." + j.name; j.group = "C13.pending_replies"; J.append(j)
    # message size: the fixed-header arithmetic with symbolic maximum
    for j in _other("C01").jobs(tier):
        if j.name == "a.fixed_header":
            j.name = "message_size.fixed_header"; j.group = "C13.message_size"; J.append(j)
    J.append(Job(name="connection.complete", group="C13.connections", harness="harness/C09_pending.c", defines={"P": 0, "OP": 9}, real=["dbus/dbus-list.c"],
                 env=["assert_stubs.c", "mem.c", "pool_lock.c", "msg_model.c", "msg_build.c"], checks="assert", unwind=7, unwindset=["strcmp.0:48"], timeout=300,
                 encodes=["bus_connections_check_limits", "bus_connection_complete", "adjust_connections_for_uid", "get_connections_for_uid", "cache_peer_loginfo_string", "bus_connections_expire_incomplete"],
                 stubs=["per-user table = one ghost counter", "string / policy / table operations = outcome stubs, the k-th one fails (k symbolic 0..8)", "limits symbolic 1..1000"],
                 assumes=["inductive hypothesis: counts within limits before the step"],
                 bounds="one Hello completing one incomplete connection; completed count, per-user count and both limits symbolic up to 1000; any single failing step",
                 shape="connection completion step"))
    for k in (0, 1):
        J.append(Job(name="connection.accept" + (f".oom{k}" if k else ""), group="C13.accept", harness="harness/C09_pending.c", defines=dict({"P": 0, "OP": 13}, **({"KOOM": k} if k else {})), real=["dbus/dbus-list.c"],
                     env=["assert_stubs.c", "mem.c", "pool_lock.c", "msg_model.c", "msg_build.c"], checks="assert", unwind=7, unwindset=["strcmp.0:48"], timeout=300,
                     encodes=["bus_connections_setup_connection", "bus_connections_expire_incomplete", "free_connection_data", "bus_expire_timeout_set_interval"],
                     stubs=["libdbus connection setters / dispatch registration / loop / timeout = outcome stubs, the k-th fallible one fails (k symbolic 0..10)", "security-module hooks may refuse (symbolic)", "dbus_connection_set_data = slot with the real free function, run on clearing",
                            "bus_context_check_all_watches = counter (its own step is accept_gate.*)"],
                     assumes=["the accept watch fired, i.e. the gate was open: incomplete connections < max_incomplete_connections (C13 accept_gate)", "of the older incomplete connections at most one is materialised in the list, the rest are only counted", "concrete clock (the new connection has age 0)"],
                     bounds="incomplete count 0..999 and limit 1..1000 symbolic; any single failing step of 10, or a security-module refusal" + (f"; allocation {k} fails" if k else ""), shape="accept one connection" + (" (block allocation fails)" if k else "")))
    for ns in (0, 1, 2, 3):
        J.append(Job(name=f"accept_gate.S{ns}", group="C13.accept_gate", harness="harness/C13_accept_gate.c", defines={"NSRV": ns}, real=["dbus/dbus-list.c"], env=["assert_stubs.c", "pool_lock.c", "mem.c"],
                     checks="assert", unwind=6, timeout=300, encodes=["bus_context_check_all_watches", "bus_context_get_max_incomplete_connections"],
                     stubs=["incomplete-connection count = ghost integer changed by one accept / drop event", "_dbus_server_toggle_all_watches = per-server counter"],
                     assumes=["inductive hypothesis J: watches enabled <=> count < limit, count <= limit", "accept happens only through an enabled watch; every change of the count is followed by the gate call (setup_connection by reading; completion / teardown by the connection.* jobs)",
                              "the limit does not change between events (a reload that lowers it below the current count is outside the claim)"],
                     bounds=f"{ns} listening server(s); limit 1..100000, count 0..limit symbolic; one accept or one drop", shape=f"accept gate step, {ns} server(s)"))
    return J
