"""C16 — name / path / signature / UTF-8 predicates accept exactly the grammars."""
META = {
    "explanation": "Differential bounded model checking: each real predicate in dbus-marshal-validate.c / dbus-string.c is "
                   "symbolically executed on an arbitrary byte buffer (length and offset symbolic) and its verdict asserted equal to a "
                   "reference written from the specification text; CBMC's default memory-safety checks and dbus's own assertions are obligations too.",
    "outside": ["strings longer than the stated N (except the 255/256 length-limit jobs, which use N up to 257)",
                "signature nesting limits 32/32 (need strings longer than the bound)"],
}
V = "dbus/dbus-marshal-validate.c"
S = "dbus/dbus-string.c"
COMMON_ENV = ["assert_stubs.c", "mem.c"]

def jobs(tier):
    J = []
    nq, nt = 8, 12
    for which, fn in [("path", "_dbus_validate_path"), ("interface", "_dbus_validate_interface"),
                      ("member", "_dbus_validate_member"), ("error_name", "_dbus_validate_error_name"),
                      ("bus_name", "_dbus_validate_bus_name"), ("bus_namespace", "_dbus_validate_bus_namespace")]:
        for n, tiers in ((nq, ("quick", "thorough")), (nt, ("thorough",))):
            J.append(Job(name=f"a.{which}.N{n}", group="C16.a", harness="harness/C16_names.c",
                         defines={"WHICH": which, "N": n, "PRE": 2}, real=[V, S], env=COMMON_ENV,
                         unwind=n + 7, tiers=tiers, timeout=600,
                         encodes=[fn, "_dbus_validate_bus_name_full", "_dbus_string_init_const_len"],
                         bounds=f"all byte strings of length 0..{n} over the full 256-byte alphabet, at offsets 0..2 of a {n+4}-byte DBusString; unwind {n+3}",
                         shape=f"{which}, N={n}", cost=n))
    for n, tiers in ((6, ("quick", "thorough")), (10, ("quick", "thorough")), (8, ("thorough",)), (17, ("thorough",))):
        J.append(Job(name=f"d.utf8.N{n}", group="C16.d", harness="harness/C16_names.c",
                     defines={"WHICH": "utf8", "N": n, "PRE": 1}, real=[S], env=COMMON_ENV,
                     unwind=n + 6, tiers=tiers, timeout=900, mem_gb=24, extra=["--object-bits", "11"],
                     encodes=["_dbus_string_validate_utf8"],
                     bounds=f"all byte strings of length 0..{n}, offsets 0..1; unwind {n+3}", shape=f"utf8, N={n}", cost=n * 3))
    J.append(Job(name="a.range", group="C16.a", harness="harness/C16_range.c", real=[V, S], env=COMMON_ENV,
                 unwind=9, encodes=["_dbus_validate_path", "_dbus_validate_interface", "_dbus_validate_member",
                                    "_dbus_validate_bus_name", "_dbus_string_validate_utf8"],
                 bounds="string length 0..6, start 0..len, any int len extending past the end", shape="out-of-range (start,len)"))
    for n, pre, tiers in ((5, 1, ("quick", "thorough")), (7, 0, ("quick", "thorough")), (8, 0, ("thorough",)), (9, 0, ("thorough",))):
        J.append(Job(name=f"c.signature.N{n}", group="C16.c", harness="harness/C16_signature.c",
                     defines={"N": n, "PRE": pre}, real=[V, S, "dbus/dbus-signature.c"], env=COMMON_ENV + ["list_lifo.c"],
                     unwind=n + 5, tiers=tiers, timeout=900 if n < 8 else 3600, mem_gb=20,
                     encodes=["_dbus_validate_signature_with_reason", "dbus_type_is_valid", "dbus_type_is_basic"],
                     stubs=["DBusList append/pop_last/clear = array LIFO (R6)"],
                     bounds=f"all byte strings of length 0..{n} (full alphabet), offsets 0..{pre}; unwind {n+5}",
                     shape=f"signature, N={n}", cost=n * 4))
    SREAL = ["dbus/dbus-list.c", "dbus/dbus-string.c", "dbus/dbus-marshal-validate.c"]
    J.append(Job(name="e.request_name.short", group="C16.e", harness="harness/C16_acquire.c", defines={"MODE": 0}, real=SREAL, env=COMMON_ENV + ["memfuncs.c"],
                 checks="assert", unwind=9, unwindset=["vf_err_is.0:66", "memcpy.0:10", "memmove.0:10", "memmove.1:10"], timeout=600,
                 encodes=["bus_registry_acquire_service", "bus_registry_release_service", "_dbus_validate_bus_name"],
                 bounds="every name of 0..5 arbitrary bytes, RequestName and ReleaseName", shape="name-request route, short names"))
    for ln in (254, 255, 256):
        J.append(Job(name=f"e.request_name.len{ln}", group="C16.e", harness="harness/C16_acquire.c", defines={"MODE": 1, "LEN": ln}, real=SREAL, env=COMMON_ENV,
                     checks="assert", unwind=262, timeout=600, min_witnesses=1,
                     encodes=["bus_registry_acquire_service", "_dbus_validate_bus_name"],
                     bounds=f"the well-formed name 'a.bbb...' of length {ln} (maximum name length 255) through RequestName", shape=f"name-request route, length {ln}"))
    # C16.f: public wrappers of dbus-syntax.c agree with the grammar (same verdict as the internal predicates) on C strings
    for which, n in (("path", 6), ("interface", 6), ("member", 6), ("error_name", 6), ("bus_name", 6), ("utf8", 6)):
        J.append(Job(name=f"f.public.{which}.N{n}", group="C16.f", harness="harness/C16_public.c", defines={"WHICH": which, "N": n}, real=["dbus/dbus-syntax.c", V, S], env=COMMON_ENV,
                     unwind=n + 7, unwindset=["strcmp.0:48"], timeout=600, extra=["--object-bits", "11"], encodes=["dbus_validate_" + which, "_dbus_string_init_const"],
                     bounds=f"every NUL-terminated C string of up to {n} bytes (full alphabet)", shape=f"public {which}, N={n}"))
    # C16.g: match-rule route on CONCRETE representative values (the parser's verdict must equal the grammar's; bounded runs of the real bus_match_rule_parse)
    MR = [("sender", 0, [":!", "::", ":1.", ":1.5", ":a", "a..b", "a.b", ".a", "a", "1a.b", "a.b-c", ":1.b_c"]), ("destination", 0, [":!", ":1.5", "a.b", "a"]),
          ("interface", 1, ["a.b", "a", "a.1b", "a..b", "a.b_c"]), ("member", 2, ["Ab", "a.b", "1a", ""]), ("path", 3, ["/", "/a", "/a/", "a", "//", "/a_1"])]
    for key, ref, vals in MR:
        for vi, v in enumerate(vals):
            J.append(Job(name=f"g.matchrule.{key}.v{vi}", group="C16.g", harness="harness/C16_matchrule.c", defines={"KEYSTR": '"' + key + '"', "REF": ref, "VALUE": '"' + v + '"'}, real=["dbus/dbus-list.c", V], env=["assert_stubs.c", "memfuncs.c", "pool_lock.c", "msg_model.c"],
                         checks="assert", unwind=24, unwindset=["strcmp.0:48", "strlen.0:24"], timeout=300, extra=["--object-bits", "11", "--max-field-sensitivity-array-size", "200"],
                         encodes=["bus_match_rule_parse", "tokenize_rule", "find_key", "find_value", "bus_match_rule_parse_arg_match"], stubs=["pool strings (R19); stolen / duplicated strings copied into static pools"],
                         bounds=f"concrete rule text {key}='{v}' (representative value; no symbolic content)", shape=f"match rule {key}={v}"))
    # (the symbolic-value form of harness/C16_matchrule.c is not registered — the tokenizer over symbolic value bytes gave no verdict (N=2: solver out of memory at 16 GB)
    return J
