"""C06 — security policy decisions equal the documented rule semantics."""
META = {
    "explanation": "The real bus/policy.c evaluators are symbolically executed over a rule list of concrete length K (each rule a separate "
                   "object, every attribute symbolic incl. rule type) and a symbolic message record; the decision and the toggle count are asserted "
                   "equal to a fold written from dbus-daemon(1).",
    "outside": ["XML -> rule parsing (config-parser.c, expat)", "SELinux / AppArmor", "real uid/gid lookups",
                "rule lists longer than K", "attribute strings longer than 2 bytes (enough to tell equal / dot-prefix / different apart)"],
}
ENV = ["assert_stubs.c", "mem.c", "pool_lock.c", "msg_model.c"]
REAL = ["dbus/dbus-list.c", "dbus/dbus-string.c"]
def jobs(tier):
    J = []
    for mode, nm, fn in ((0, "send", "bus_client_policy_check_can_send"), (1, "receive", "bus_client_policy_check_can_receive"),
                         (2, "own", "bus_client_policy_check_can_own")):
        for k in (0, 1, 2, 3):
            tiers = ("quick", "thorough") if k <= 2 else ("thorough",)
            J.append(Job(name=f"{'abc'[mode]}.{nm}.K{k}", group=f"C06.{'abc'[mode]}", harness="harness/C06_policy.c",
                         defines={"K": k, "MODE": mode}, real=REAL, env=ENV, checks="assert", unwind=6, timeout=900, tiers=tiers,
                         encodes=[fn, "bus_rules_check_can_own", "_dbus_string_starts_with_words_c_str", "_dbus_string_equal_c_str",
                                  "_dbus_list_get_first_link"],
                         stubs=["bus_registry_lookup / bus_service_owner_in_queue / bus_connection_is_queued_owner_by_prefix = per-rule symbolic booleans",
                                "DBusMessage accessors = symbolic record (R8)"],
                         bounds=f"K={k} rules, each of symbolic type send/receive/own with all attributes symbolic (strings NULL or 2 symbolic bytes, "
                                "fd ranges full 32-bit); message: type 1..4, reply_serial/n_fds 32-bit, 6 header strings NULL or <=3 symbolic bytes",
                         shape=f"{nm}, K={k}", cost=1 + k * k))
    for ng in (0, 1, 2):
      J.append(Job(name=f"e.context_order.G{ng}", group="C06.e", harness="harness/C06_context.c", defines={"NG": ng}, real=REAL, env=["assert_stubs.c", "mem.c", "pool_lock.c"],
                 checks="assert", unwind=9, unwindset=["remove_rules_by_type_up_to.0:1"], timeout=600, encodes=["bus_policy_create_client_policy", "add_list_to_client", "bus_client_policy_append_rule",
                 "bus_client_policy_optimize"], stubs=["uid/gid hash tables = 1-entry symbolic maps", "unix groups / uid / at_console = symbolic"],
                 bounds="one rule per context (default, one group list, one user list, console true/false, mandatory), NG groups per connection (0..2), uid/gid 32-bit symbolic",
                 shape=f"context order, {ng} groups"))
    J.append(Job(name="f.gate", group="C06.f", harness="harness/C06_gate.c", real=["dbus/dbus-string.c"], env=["assert_stubs.c", "mem.c", "msg_model.c"],
                 checks="assert", unwind=8, unwindset=["strcmp.0:50", "vf_streq.0:50", "strlen.0:50"], timeout=600,
                 encodes=["bus_context_check_security_policy", "complain_about_message"], remove_bodies=["bus_context_log_literal"],
                 stubs=["send / receive rule evaluators, SELinux / AppArmor hooks, pending-reply table, queue sizes = symbolic answers with ghost log"],
                 bounds="one message (symbolic header record, type 1..5) with sender / addressed recipient / proposed recipient each present or not, every callee answer symbolic, limits full width",
                 shape="policy gate"))
    # C06.g: a reload rebuilds the policies of existing connections from the NEW policy (call-order skeleton of process_config_every_time)
    J.append(Job(name="g.reload_order", group="C06.g", harness="harness/C06_reload.c", real=["dbus/dbus-list.c"], env=["assert_stubs.c", "pool_lock.c", "mem.c"], checks="assert", unwind=4, timeout=300,
                 extra=["--object-bits", "11"], encodes=["process_config_every_time"], stubs=["parser, activation, server address, strings = outcome stubs; the k-th fallible call fails (k symbolic 0..9)"],
                 bounds="start-up or reload, 0 or 1 listening server, any single failing step", shape="configuration (re)load"))
    return J
