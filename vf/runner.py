#!/usr/bin/env python3
"""vf runner — bounded symbolic checking (CBMC) of the real freedesktop/dbus sources.

usage:  runner.py <PROPERTY> [--tier quick|thorough] [--jobs N] [--only SUBSTR] [--keep]
        runner.py <PROPERTY> --replay <replay-dir>
        runner.py --list

For one property: loads vf/jobs/<PROPERTY>.py, rebuilds every goto object from
/repo's *current working tree*, runs one cbmc process per job (shape), classifies
every reported obligation, confirms counterexamples by native replay
(gcc + ASan/UBSan, same harness, same stubs), writes /verif/evidence/<id>.json.

exit 0  every obligation UNSAT (held inside the bound), witnesses reachable
exit 1  a counterexample was found (VIOLATION line printed when the native replay reproduces it)
exit 2  the check itself is broken on this tree (harness does not build, vacuous witness)
"""
import argparse, dataclasses, hashlib, importlib.util, json, os, re, resource, shutil, signal
import subprocess, sys, time, random, shlex
from concurrent.futures import ThreadPoolExecutor, as_completed
from dataclasses import dataclass, field
from typing import Dict, List, Optional

VERIF = os.path.dirname(os.path.dirname(os.path.abspath(__file__)))
REPO = os.environ.get("VF_REPO", "/repo")
BUILD = os.path.join(REPO, "_build")
CPPFLAGS = ["-DHAVE_CONFIG_H", "-DDBUS_COMPILATION", "-D_GNU_SOURCE", "-DDBUS_BUILT_R_DYNAMIC",
            f"-I{REPO}", f"-I{BUILD}", f"-I{REPO}/bus", f"-I{VERIF}/env", f"-I{VERIF}/ref", f"-I{VERIF}/harness"]


@dataclass
class Job:
    name: str                      # unique inside the property, e.g. "a.bus_name.N8"
    harness: str                   # path relative to /verif
    group: str = ""                # sub-obligation id (C16.a ...)
    entry: str = "harness"
    defines: Dict[str, object] = field(default_factory=dict)
    real: List[str] = field(default_factory=list)     # repo-relative real TUs compiled separately
    env: List[str] = field(default_factory=list)      # /verif/env stubs
    unwind: Optional[int] = None
    unwindset: List[str] = field(default_factory=list)
    checks: str = "std"            # "std": CBMC default safety checks; "assert": assertions only
    extra: List[str] = field(default_factory=list)
    timeout: int = 300
    mem_gb: int = 12
    tiers: tuple = ("quick", "thorough")
    encodes: List[str] = field(default_factory=list)  # real functions symbolically executed
    bounds: str = ""
    shape: str = ""
    stubs: List[str] = field(default_factory=list)
    assumes: List[str] = field(default_factory=list)
    allow_no_body: List[str] = field(default_factory=list)
    termination_is_property: bool = False   # failed unwinding assertion counts as violation
    min_witnesses: int = 1
    cost: int = 1                  # scheduling weight (expensive first)
    solver: str = "cadical"        # cbmc --sat-solver (minisat2 | cadical)
    remove_bodies: List[str] = field(default_factory=list)   # functions of the real TU turned into body-less (nondet) stubs via goto-instrument; each is listed as a stub
    ignore: List[tuple] = field(default_factory=list)   # (regex on CBMC check description, reason): documented tool artifacts, listed in evidence


def load_jobs(pid: str, tier: str) -> List[Job]:
    path = os.path.join(VERIF, "vf", "jobs", f"{pid}.py")
    spec = importlib.util.spec_from_file_location(f"vfjobs_{pid}", path)
    mod = importlib.util.module_from_spec(spec)
    mod.Job = Job
    spec.loader.exec_module(mod)
    jobs = mod.jobs(tier)
    return [j for j in jobs if tier in j.tiers], getattr(mod, "META", {})


def known_findings():
    p = os.path.join(VERIF, "known_findings.json")
    if not os.path.exists(p):
        return []
    return json.load(open(p)).get("findings", [])


def sh(cmd, timeout=None, mem_gb=None, cwd=None, env=None):
    def pre():
        os.setsid()
        if mem_gb:
            b = int(mem_gb * (1 << 30))
            resource.setrlimit(resource.RLIMIT_AS, (b, b))
    t0 = time.time()
    p = subprocess.Popen(cmd, stdout=subprocess.PIPE, stderr=subprocess.PIPE, preexec_fn=pre, cwd=cwd, env=env)
    try:
        out, err = p.communicate(timeout=timeout)
        to = False
    except subprocess.TimeoutExpired:
        try:
            os.killpg(p.pid, signal.SIGKILL)
        except ProcessLookupError:
            pass
        out, err = p.communicate()
        to = True
    ru = resource.getrusage(resource.RUSAGE_CHILDREN)
    return p.returncode, out.decode("utf-8", "replace"), err.decode("utf-8", "replace"), to, time.time() - t0


def dflags(defs):
    r = []
    for k, v in sorted(defs.items()):
        r.append(f"-D{k}" if v is True or v is None else f"-D{k}={v}")
    return r


class Builder:
    """Compiles each (source, defines) once per run into the scratch dir."""
    def __init__(self, work):
        self.work = work
        self.cache = {}

    def key(self, src, defs):
        h = hashlib.sha1((src + "|" + " ".join(dflags(defs))).encode()).hexdigest()[:12]
        return os.path.join(self.work, "obj", os.path.basename(src).replace(".c", "") + "-" + h + ".o")

    def compile(self, src, defs):
        out = self.key(src, defs)
        if out in self.cache:
            return self.cache[out]
        os.makedirs(os.path.dirname(out), exist_ok=True)
        cmd = ["goto-cc"] + CPPFLAGS + dflags(defs) + ["-c", src, "-o", out]
        rc, o, e, to, dt = sh(cmd, timeout=300)
        res = (rc == 0 and not to, out, e[-4000:])
        self.cache[out] = res
        return res


def abs_src(job: Job):
    srcs = [(os.path.join(VERIF, job.harness), job.defines)]
    srcs += [(os.path.join(REPO, r), {}) for r in job.real]
    srcs += [(os.path.join(VERIF, "env", e), {}) for e in job.env]
    return srcs


def cbmc_cmd(job: Job, gb: str, extra=()):
    cmd = ["cbmc", gb, "--function", job.entry, "--json-ui", "--verbosity", "8", "--no-malloc-may-fail",
           "--drop-unused-functions", "--unwinding-assertions"]
    if job.unwind is not None:
        cmd += ["--unwind", str(job.unwind)]
    if job.unwindset:
        cmd += ["--unwindset", ",".join(job.unwindset)]
    if job.checks == "assert":
        cmd += ["--no-standard-checks"]
    if job.solver and job.solver != "minisat2":
        cmd += ["--sat-solver", job.solver]
    cmd += list(job.extra) + list(extra)
    return cmd


def parse_cbmc(out: str):
    """-> dict(status, props=[{id,desc,status,loc}], msgs=[...])"""
    try:
        data = json.loads(out)
    except Exception:
        # truncated json (timeout): try to salvage
        return None
    props, msgs, status = [], [], None
    for e in data:
        if not isinstance(e, dict):
            continue
        if "result" in e:
            for r in e["result"]:
                loc = r.get("sourceLocation", {})
                props.append({"id": r.get("property"), "desc": r.get("description", ""),
                              "status": r.get("status"),
                              "loc": f"{loc.get('file','')}:{loc.get('line','')}",
                              "func": loc.get("function", ""), "trace": r.get("trace")})
        if "messageText" in e:
            msgs.append(e["messageText"])
        if "cProverStatus" in e:
            status = e["cProverStatus"]
    return {"status": status, "props": props, "msgs": msgs}


def run_job(job: Job, builder: Builder, work: str):
    t0 = time.time()
    res = {"job": job.name, "group": job.group, "shape": job.shape, "bounds": job.bounds,
           "harness": job.harness, "defines": {k: str(v) for k, v in job.defines.items()},
           "verdict": None, "failed": [], "witness_ok": [], "witness_vacuous": [],
           "findings_hit": [], "unwinding_failed": [], "no_body": []}
    objs = []
    for src, defs in abs_src(job):
        ok, o, err = builder.compile(src, defs)
        if not ok:
            res.update(verdict="build_error", detail=f"goto-cc failed for {src}:\n{err}")
            return res
        objs.append(o)
    gb = os.path.join(work, "gb", re.sub(r"[^A-Za-z0-9_.-]", "_", job.name) + ".gb")
    os.makedirs(os.path.dirname(gb), exist_ok=True)
    rc, o, e, to, dt = sh(["goto-cc"] + objs + ["-o", gb], timeout=300)
    if rc != 0:
        res.update(verdict="build_error", detail="link failed:\n" + e[-3000:])
        return res
    if job.remove_bodies:
        gb2 = gb[:-3] + ".rb.gb"
        cmd = ["goto-instrument"] + sum((["--remove-function-body", f] for f in job.remove_bodies), []) + [gb, gb2]
        rc, o, e, to, dt = sh(cmd, timeout=300)
        if rc != 0:
            res.update(verdict="build_error", detail="goto-instrument failed:\n" + (o + e)[-3000:])
            return res
        gb = gb2
    res["gb"] = gb
    cmd = cbmc_cmd(job, gb)
    res["cbmc_cmd"] = " ".join(cmd).replace(work, "$WORK")
    rc, out, err, to, dt = sh(cmd, timeout=job.timeout, mem_gb=job.mem_gb)
    res["cbmc_wall_s"] = round(dt, 2)
    if to:
        res.update(verdict="not_decided", detail=f"timeout after {job.timeout}s")
        return res
    parsed = parse_cbmc(out)
    if parsed is None or parsed["status"] is None:
        tail = (out[-1500:] + "\n" + err[-1500:])
        kind = "not_decided" if ("bad_alloc" in tail or "Out of memory" in tail or rc in (-9, -6, 134, 137)) else "tool_error"
        res.update(verdict=kind, detail=f"cbmc rc={rc}: " + tail)
        return res
    text = "\n".join(parsed["msgs"])
    m = re.search(r"Generated (\d+) VCC\(s\), (\d+) remaining", text)
    if m:
        res["vccs"] = int(m.group(1)); res["vccs_after_simplification"] = int(m.group(2))
    m = re.search(r"(\d+) variables, (\d+) clauses", text)
    if m:
        res["sat_vars"] = int(m.group(1)); res["sat_clauses"] = int(m.group(2))
    res["solver_s"] = round(sum(float(x) for x in re.findall(r"Runtime Solver: ([0-9.e+-]+)s", text)), 3)
    res["symex_s"] = round(sum(float(x) for x in re.findall(r"Runtime Symex: ([0-9.e+-]+)s", text)), 3)
    res["no_body"] = sorted(set(x for x in re.findall(r"no body for (?:function|callee) ([A-Za-z0-9_]+)", text)
                                if not x.startswith("nondet_") and x not in job.allow_no_body and x not in job.remove_bodies))
    n_ok = 0
    for p in parsed["props"]:
        d, st = p["desc"], p["status"]
        if st not in ("SUCCESS", "FAILURE"):
            # e.g. "ERROR" when the solver ran out of memory: never success, never vacuity
            res.setdefault("other_status", []).append([p["id"], st])
            continue
        if d.startswith("WITNESS?:"):
            if st == "FAILURE":
                res["witness_ok"].append(d[9:].strip())
            continue
        if d.startswith("WITNESS:"):
            (res["witness_ok"] if st == "FAILURE" else res["witness_vacuous"]).append(d[8:].strip())
            continue
        if st == "SUCCESS":
            n_ok += 1
            continue
        if st != "FAILURE":
            res.setdefault("other_status", []).append([p["id"], st])
            continue
        if d.startswith("no body for callee"):
            fn = d.split()[-1]
            if fn not in job.allow_no_body and fn not in job.remove_bodies and fn not in res["no_body"]:
                res["no_body"].append(fn)
            continue
        if d.startswith("unwinding assertion") or "recursion unwinding assertion" in d:
            res["unwinding_failed"].append({"id": p["id"], "desc": d, "loc": p["loc"]})
            continue
        ign = [rs for rx, rs in job.ignore if re.search(rx, d)]
        if ign:
            res.setdefault("excluded_checks", []).append({"id": p["id"], "desc": d, "loc": p["loc"], "reason": ign[0]})
            continue
        if d.startswith("FINDING:"):
            res["findings_hit"].append({"key": d[8:].strip(), "id": p["id"], "loc": p["loc"]})
            continue
        res["failed"].append({"id": p["id"], "desc": d, "loc": p["loc"], "func": p["func"]})
    res["obligations"] = len([p for p in parsed["props"] if not p["desc"].startswith("WITNESS")])
    res["obligations_unsat"] = n_ok
    real_failures = res["failed"] or (job.termination_is_property and res["unwinding_failed"])
    if (res.get("other_status") or parsed["status"] not in ("success", "failure")) and not real_failures:
        # (a refuted obligation is a refuted obligation even if the solver left others undecided: SAT takes precedence over "not decided")
        res["verdict"] = "not_decided"; res["detail"] = f"cbmc status {parsed['status']}; undecided obligations: {len(res.get('other_status', []))} (solver error / out of memory)"
    elif res["no_body"]:
        res["verdict"] = "broken"; res["detail"] = "functions without body reached: " + ",".join(res["no_body"])
    elif res["failed"] or (job.termination_is_property and res["unwinding_failed"]):
        res["verdict"] = "sat"
    elif res["unwinding_failed"]:
        res["verdict"] = "not_decided"; res["detail"] = "unwinding assertion failed (bound too small): " + ", ".join(f"{u['id']}@{u['loc']}" for u in res["unwinding_failed"][:6])
    elif res["witness_vacuous"] or len(res["witness_ok"]) < job.min_witnesses:
        res["verdict"] = "broken"; res["detail"] = "vacuous: witness not reachable: " + ",".join(res["witness_vacuous"] or ["<none present>"])
    else:
        res["verdict"] = "unsat"
    res["wall_s"] = round(time.time() - t0, 2)
    return res


# ---------------------------------------------------------------------------- replay

def extract_inputs(trace):
    vals = []
    for s in trace or []:
        if s.get("stepType") == "output" and s.get("outputID") == "vf_in":
            for v in s.get("values", []):
                b = v.get("binary")
                if b is not None and re.fullmatch(r"[01]+", b):
                    vals.append((int(b, 2), v.get("type", "")))
                else:
                    d = str(v.get("data", "0")).lower()
                    vals.append((1 if d in ("true", "1") else 0, v.get("type", "")))
    return vals


REPLAY_SH = """#!/bin/bash
# Native replay of a CBMC counterexample: same harness, same stubs, real sources from {repo}.
# exit 1 = reproduced (assertion abort / sanitizer report{hang}), 0 = not reproduced.
D="$(cd "$(dirname "$0")" && pwd)"
B="$(mktemp -d /tmp/vf-replay.XXXXXX)"; trap 'rm -rf "$B"' EXIT
gcc -g -O0 -w -fsanitize=address,undefined -fno-sanitize-recover=undefined -fno-omit-frame-pointer \\
  -DVF_REPLAY {cpp} {defs} \\
  {srcs} {verif}/env/vf_replay.c -no-pie -Wl,--unresolved-symbols=ignore-all -o "$B/replay" >"$B/build.log" 2>&1 \\
  || {{ echo "replay build failed"; tail -20 "$B/build.log"; exit 3; }}
VF_REPLAY_FILE="$D/inputs.txt" ASAN_OPTIONS=detect_leaks=0:abort_on_error=0 timeout 60 "$B/replay" 2>"$B/err.log"
rc=$?
cp "$B/err.log" "$D/replay.stderr.log" 2>/dev/null; grep -a -m12 -E "vf-show|VF-REPLAY|ERROR: AddressSanitizer|runtime error|^    #[0-4] " "$B/err.log" >&2
echo "replay exit code: $rc"
if [ $rc -eq 124 ]; then {hangline} fi
if grep -qE "VF-REPLAY-ASSERT-FAILED|ERROR: AddressSanitizer|runtime error:|SUMMARY: UndefinedBehaviorSanitizer" "$B/err.log"; then echo "REPRODUCED"; exit 1; fi
echo "NOT REPRODUCED"; exit 0
"""


def make_replay(pid, job: Job, res, work):
    """Re-run cbmc for the first failing obligation with --trace, write replay dir, run it."""
    target = (res["failed"] or res["unwinding_failed"] or res["findings_hit"])[0]
    rdir = os.path.join(VERIF, "replays", pid, re.sub(r"[^A-Za-z0-9_.-]", "_", job.name))
    shutil.rmtree(rdir, ignore_errors=True)
    os.makedirs(rdir)
    cmd = cbmc_cmd(job, res["gb"], ["--trace", "--property", target["id"]])
    rc, out, err, to, dt = sh(cmd, timeout=job.timeout * 2, mem_gb=job.mem_gb)
    parsed = parse_cbmc(out) if not to else None
    vals = []
    if parsed:
        for p in parsed["props"]:
            if p["id"] == target["id"] and p.get("trace"):
                vals = extract_inputs(p["trace"])
                # short human-readable trace: assignments in harness + failure
                with open(os.path.join(rdir, "trace_summary.txt"), "w") as f:
                    for s in p["trace"]:
                        if s.get("stepType") == "failure":
                            f.write(f"FAILURE {s.get('reason')} at {s.get('sourceLocation',{}).get('file')}:{s.get('sourceLocation',{}).get('line')}\n")
                        elif s.get("stepType") == "output":
                            f.write(f"input {[v.get('data') for v in s.get('values',[])]}\n")
    with open(os.path.join(rdir, "inputs.txt"), "w") as f:
        f.write(f"# property={pid} job={job.name} obligation={target['id']} {target.get('desc', target.get('key',''))}\n")
        for v, t in vals:
            f.write(f"{v}\n")
    srcs = " ".join(s for s, _ in abs_src(job))
    hang = ", or hang when termination is the property" if job.termination_is_property else ""
    hangline = 'echo "REPRODUCED (hang)"; exit 1;' if job.termination_is_property else 'echo "NOT REPRODUCED (timeout)"; exit 0;'
    with open(os.path.join(rdir, "replay.sh"), "w") as f:
        f.write(REPLAY_SH.format(repo=REPO, cpp=" ".join(CPPFLAGS), defs=" ".join(shlex.quote(x) for x in dflags(job.defines)),
                                 srcs=srcs, verif=VERIF, hang=hang, hangline=hangline))
    os.chmod(os.path.join(rdir, "replay.sh"), 0o755)
    with open(os.path.join(rdir, "obligation.json"), "w") as f:
        json.dump({"property": pid, "job": job.name, "obligation": target, "cbmc_cmd": res.get("cbmc_cmd"),
                   "n_inputs": len(vals)}, f, indent=1)
    rc, out, err, to, dt = sh([os.path.join(rdir, "replay.sh")], timeout=600)
    confirmed = (rc == 1)
    with open(os.path.join(rdir, "replay.log"), "w") as f:
        f.write(out[-6000:] + "\n--- stderr ---\n" + err[-6000:])
    return rdir, confirmed, target


# ---------------------------------------------------------------------------- main

def run_property(pid, tier, njobs, only=None, keep=False):
    t0 = time.time()
    seed = int(os.environ.get("VERIF_SEED", "0") or 0)
    jobs, meta = load_jobs(pid, tier)
    if only:
        jobs = [j for j in jobs if only in j.name]
    rnd = random.Random(seed)
    rnd.shuffle(jobs)
    jobs.sort(key=lambda j: -j.cost)
    work = os.path.join(os.environ.get("VF_WORK", os.path.join(VERIF, ".work")), f"{pid}-{tier}-{os.getpid()}")
    shutil.rmtree(work, ignore_errors=True)
    os.makedirs(work)
    builder = Builder(work)
    results = []
    try:
        # compile shared objects first (deduplicated), in parallel
        uniq = {}
        for j in jobs:
            for src, defs in abs_src(j):
                uniq[builder.key(src, defs)] = (src, defs)
        with ThreadPoolExecutor(max_workers=njobs) as ex:
            list(ex.map(lambda sd: builder.compile(*sd), uniq.values()))
        with ThreadPoolExecutor(max_workers=njobs) as ex:
            futs = {ex.submit(run_job, j, builder, work): j for j in jobs}
            for fu in as_completed(futs):
                j = futs[fu]
                try:
                    r = fu.result()
                except Exception as ex_:  # framework bug: never report success
                    r = {"job": j.name, "verdict": "tool_error", "detail": repr(ex_), "failed": [], "findings_hit": [],
                         "unwinding_failed": [], "witness_ok": [], "witness_vacuous": []}
                results.append((j, r))
                print(f"[{pid}] {r['verdict']:>12}  {j.name:<40} {r.get('cbmc_wall_s','-')}s  "
                      f"oblig={r.get('obligations','-')} {('- ' + r.get('detail','')[:200]) if r['verdict'] not in ('unsat',) else ''}",
                      flush=True)
        # ---- classify
        kf = [k for k in known_findings() if k.get("property") == pid or pid in k.get("also_properties", [])]
        open_keys = {k["key"]: k for k in kf if k.get("status") == "open"}
        violations, unconfirmed, known_hit, broken, undecided = [], [], {}, [], []
        for j, r in results:
            if r["verdict"] in ("build_error", "tool_error", "broken"):
                broken.append((j, r))
            elif r["verdict"] == "not_decided":
                undecided.append((j, r))
            new_findings = [f for f in r.get("findings_hit", []) if f["key"] not in open_keys]
            for f in r.get("findings_hit", []):
                if f["key"] in open_keys:
                    known_hit.setdefault(f["key"], []).append(j.name)
            if r["verdict"] == "sat" or new_findings:
                if new_findings and not r["failed"]:
                    r = dict(r); r["failed"] = [{"id": f["id"], "desc": "FINDING:" + f["key"], "loc": f["loc"]} for f in new_findings]
                rdir, confirmed, target = make_replay(pid, j, r, work)
                r["replay"] = rdir; r["replay_confirmed"] = confirmed
                (violations if confirmed else unconfirmed).append((j, r, rdir, target))
        for key, names in known_hit.items():
            print(f"KNOWN-FINDING: property={pid} {open_keys[key]['what']} [key={key}; jobs={','.join(sorted(names))}]")
        for j, r, rdir, target in violations:
            print(f"VIOLATION property={pid} replay={rdir}")
            print(f"  job={j.name} obligation={target.get('id')} {target.get('desc', '')} at {target.get('loc','')}")
        for j, r, rdir, target in unconfirmed:
            print(f"UNCONFIRMED-COUNTEREXAMPLE property={pid} trace={rdir}")
            print(f"  job={j.name} obligation={target.get('id')} {target.get('desc', '')} at {target.get('loc','')} (solver SAT; native replay did not reproduce)")
        for j, r in broken:
            print(f"CHECK-BROKEN property={pid} job={j.name} {r['verdict']}: {r.get('detail','')[:1500]}")
        for j, r in undecided:
            print(f"NOT-DECIDED property={pid} job={j.name}: {r.get('detail','')[:300]}")
        # ---- evidence
        decided = [(j, r) for j, r in results if r["verdict"] in ("unsat", "sat")]
        nontrivial = [(j, r) for j, r in results if r["verdict"] == "unsat" and r.get("witness_ok")]
        samples = []
        for j, r in sorted(results, key=lambda x: x[0].name):
            samples.append({k: r.get(k) for k in ("job", "group", "shape", "bounds", "verdict", "obligations",
                                                   "obligations_unsat", "vccs", "sat_vars", "sat_clauses", "solver_s", "symex_s",
                                                   "cbmc_wall_s", "witness_ok", "findings_hit", "excluded_checks", "cbmc_cmd", "defines")
                            if r.get(k) not in (None, [], {})})
        ev = {
            "property_id": pid, "tier": tier, "seed": seed, "level": "model_checking",
            "coverage": {
                "evaluations": len(results),
                "distinct_nontrivial": len(nontrivial),
                "rule": "one evaluation = one CBMC job = one concrete shape (signature / queue length / rule-list length / state) "
                        "whose contents are all solver variables; a job counts as non-trivial when it was decided UNSAT for every "
                        "obligation AND at least one reachability witness inside it came back SAT (non-vacuous). Jobs are distinct by name.",
                "samples": samples,
                "obligations": sum(r.get("obligations", 0) for _, r in results),
                "discharged": sum(r.get("obligations_unsat", 0) for _, r in results),
                "queries_discharged": sum(r.get("obligations_unsat", 0) for _, r in results),
                "functions_encoded": sorted(set(f for j, _ in results for f in j.encodes)),
                "bounds": sorted(set(f"{j.group or j.name}: {j.bounds}" for j, _ in results if j.bounds)),
                "stubs": sorted(set(s for j, _ in results for s in (j.stubs + j.env))),
                "not_decided": [j.name for j, r in undecided],
                "broken": [j.name for j, r in broken],
                "known_findings_hit": sorted(known_hit),
                "solver_time_s": round(sum(r.get("solver_s", 0) or 0 for _, r in results), 2),
                "cbmc_time_s": round(sum(r.get("cbmc_wall_s", 0) or 0 for _, r in results), 2),
                "explanation": meta.get("explanation", ""),
                "outside_claim": meta.get("outside", []),
                "exhaustive": False,
            },
            "assumptions": sorted(set(a for j, _ in results for a in j.assumes)) + meta.get("assumptions", []) + [
                "cbmc 6.11 semantics of C; --no-malloc-may-fail (allocation failure modelled explicitly by env/mem.c where in scope)",
                "goto-cc with the real build's config.h and defines; bodies of every reached function are either the real source or a listed stub",
            ],
            "wall_s": round(time.time() - t0, 2),
            "violations": len(violations) + len(unconfirmed),
        }
        os.makedirs(os.path.join(VERIF, "evidence"), exist_ok=True)
        # a partial (--only) run never overwrites the property's evidence record
        with open(os.path.join(VERIF, "evidence", f"{pid}.partial.json" if only else f"{pid}.json"), "w") as f:
            json.dump(ev, f, indent=1)
        print(f"[{pid}] tier={tier} jobs={len(results)} unsat={len([1 for _, r in results if r['verdict']=='unsat'])} "
              f"sat={len(violations)+len(unconfirmed)} undecided={len(undecided)} broken={len(broken)} "
              f"wall={ev['wall_s']}s solver={ev['coverage']['solver_time_s']}s")
        if violations or unconfirmed:
            return 1
        if broken:
            return 2
        return 0
    finally:
        if not keep:
            shutil.rmtree(work, ignore_errors=True)


def main():
    ap = argparse.ArgumentParser()
    ap.add_argument("property", nargs="?")
    ap.add_argument("--tier", default=os.environ.get("VERIF_TIER", "quick"))
    ap.add_argument("--jobs", type=int, default=int(os.environ.get("VF_JOBS", "14")))
    ap.add_argument("--only")
    ap.add_argument("--keep", action="store_true")
    ap.add_argument("--replay")
    ap.add_argument("--list", action="store_true")
    a = ap.parse_args()
    if a.list:
        for f in sorted(os.listdir(os.path.join(VERIF, "vf", "jobs"))):
            if f.endswith(".py"):
                pid = f[:-3]
                for t in ("quick", "thorough"):
                    js, _ = load_jobs(pid, t)
                    print(pid, t, len(js), "jobs")
        return 0
    if a.replay:
        p = a.replay if os.path.isdir(a.replay) else os.path.dirname(a.replay)
        return subprocess.call([os.path.join(p, "replay.sh")])
    if a.tier not in ("quick", "thorough"):
        a.tier = "quick"
    return run_property(a.property, a.tier, a.jobs, a.only, a.keep)


if __name__ == "__main__":
    sys.exit(main())
