#!/usr/bin/env python3
"""Prints the prompt given to an independent sub-agent asked to seed a property-breaking change."""
import json, sys
pid = sys.argv[1]; n = sys.argv[2] if len(sys.argv) > 2 else "2"
first = int(sys.argv[3]) if len(sys.argv) > 3 else 1; last = first + int(n) - 1
p = [json.loads(l) for l in open('/verif/properties.jsonl') if json.loads(l)['id'] == pid][0]
wt = f"/tmp/wt-{pid}"
out = f"/tmp/seed-{pid}"
print(f"""You are helping test a verification framework by writing realistic *bugs* ("seeded changes") for the freedesktop/dbus code base (reference D-Bus implementation: libdbus + dbus-daemon, C, CMake build).

Your own private scratch git worktree of the repository is at {wt} (detached HEAD at the current commit of the repository). Work ONLY inside {wt} and {out}/ . Do NOT read, list or touch /verif or /repo or any other /tmp/wt-* directory — your work must be independent of them.

Here is a semantic property that the code base is supposed to satisfy (JSON record):

{json.dumps(p, indent=1)}

TASK: produce {n} different, independent source changes to freedesktop/dbus (files under dbus/ or bus/ — not tests, not build files), each of which BREAKS this property while
  (a) the tree still compiles, and
  (b) the existing test suite still passes (at minimum every test that exercises the code you touched; ideally the whole ctest suite), and
  (c) the breakage needs something specific to manifest: an unusual input, a boundary value, a particular multi-step sequence of operations, a fault at a particular point, or two cooperating sites that each look fine alone. NOT something ordinary use or the existing tests would expose at once. Think of the kind of subtle regression a real maintainer could introduce in a refactoring or "optimisation" and that code review could miss.
Each change should be small (a few lines), realistic, and hit a *different* mechanism/part of the property from the others.

For EACH change deliver a directory {out}/k/ (k = {first}..{last}) containing:
  - patch.diff   : `git diff` of the change against your worktree HEAD (must apply with `git apply` at the repository root)
  - a demonstration: a small C program or test (demo.c plus a build+run script demo.sh taking the source tree root as $1 and the build dir as $2; or a shell script driving existing binaries) that exits non-zero / visibly FAILS with the change applied and exits 0 / PASSES on the unchanged tree. It may link against the built libraries in the build dir (e.g. libdbus-internal / libdbus-1, headers in the tree, config.h in the build dir) and may call internal functions.
  - README.md   : which part of the property it breaks, what exactly is needed for it to manifest, and the exact commands you ran (build, tests, demo with and without the change) with their observed outcomes.

How to build and test in your worktree:
  cd {wt} && cmake -G Ninja -S . -B _build -DCMAKE_BUILD_TYPE=RelWithDebInfo -DDBUS_BUILD_TESTS=ON -DDBUS_ENABLE_EMBEDDED_TESTS=ON -DDBUS_ENABLE_MODULAR_TESTS=ON >/dev/null && cmake --build _build -j8
  ctest --test-dir _build -j6 --timeout 900      (takes ~15 min; if tests refuse to run as root try `su pbtest -s /bin/bash -c ...` or run the relevant test binaries in _build/bin directly)
Look at /repo/_build/CMakeCache.txt ONLY if you need to copy cmake options (e.g. -DDBUS_BUILD_TESTS=ON, embedded tests enabled) so that your build matches — that single file is the only thing outside your worktree you may read. The sandbox has no network.

Process: first verify the demo PASSES on the unchanged tree; then apply change, rebuild, run the relevant existing tests (they must pass), run the demo (must fail); then `git diff > patch.diff`, and `git checkout -- .` before starting the next change. Leave the worktree clean (no uncommitted source edits) when you finish; you may leave _build in place.

In your final answer, list for each change: one-line description, files touched, which existing tests you ran and their result, and the demo outcome with/without the change. Be honest if something could not be confirmed.""")
