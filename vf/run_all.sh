#!/bin/bash
# run_all.sh [tier] [PROP...] : run the registered checks one after another on /repo as it is, log to /tmp/vf-all-<tier>.log
T=${1:-quick}; shift
cd /verif
P="$@"; [ -z "$P" ] && P=$(python3 -c "import json;print(' '.join(c['property_id'] for c in json.load(open('MANIFEST.json'))['checks']))")
for p in $P; do
  s=$(date +%s); ./check $p --tier $T > /tmp/vf-$p-$T.log 2>&1; rc=$?
  echo "$p tier=$T rc=$rc wall=$(( $(date +%s) - s ))s $(grep -c '^KNOWN-FINDING' /tmp/vf-$p-$T.log) known-finding(s) :: $(tail -1 /tmp/vf-$p-$T.log)"
done
