#!/bin/bash
# run_seeded.sh <seed-dir-name> [PROP ...] : apply a kept seeded change to /repo, run quick checks, undo.
S=/verif/seeded/$1; shift
PROPS="$@"; [ -z "$PROPS" ] && PROPS=$(python3 -c "import json;print(json.load(open('$S/meta.json'))['property'])")
cd /verif
git -C /repo status --short | grep -v '^??' && { echo "/repo not clean"; exit 9; }
git -C /repo apply $S/patch.diff || exit 9
for P in $PROPS; do
  ./check $P --tier ${TIER:-quick} ${ONLY:+--only $ONLY} > /tmp/seedrun-$(basename $S)-$P.log 2>&1; rc=$?
  echo "seed=$(basename $S) check=$P rc=$rc $(grep -c '^VIOLATION' /tmp/seedrun-$(basename $S)-$P.log) violation line(s)"
  grep -A1 '^VIOLATION\|^UNCONFIRMED\|^CHECK-BROKEN' /tmp/seedrun-$(basename $S)-$P.log | head -8
done
git -C /repo checkout -- .
# evidence files were rewritten by a run on a modified tree: restore the committed ones
git -C /verif checkout -- evidence 2>/dev/null
