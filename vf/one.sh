#!/bin/bash
# quick manual experiment: vf/one.sh <harness.c> "<real files>" "<env files>" "<defs>" <cbmc flags...>
H=$1; REAL=$2; ENV=$3; DEFS=$4; shift 4
W=$(mktemp -d /tmp/vfone.XXXX)
CPP="-DHAVE_CONFIG_H -DDBUS_COMPILATION -D_GNU_SOURCE -I/repo -I/repo/_build -I/repo/bus -I/verif/env -I/verif/ref -I/verif/harness"
srcs="$H"; for r in $REAL; do srcs="$srcs /repo/$r"; done; for e in $ENV; do srcs="$srcs /verif/env/$e"; done
goto-cc $CPP $DEFS $srcs -o $W/a.gb 2>&1 | grep -i error
/usr/bin/time -f "wall %es mem %MKB" cbmc $W/a.gb --function harness --no-malloc-may-fail --drop-unused-functions --unwinding-assertions --verbosity 8 "$@" 2>&1 | grep -E "Runtime Symex|Runtime Solver|variables|wall|VERIFICATION|FAILURE|size of program" 
rm -rf $W
