#!/bin/bash
# sweep_seeds.sh : re-run every kept seeded change against the job that caught it (regression test of the checks themselves);
# uses vf/run_seeded.sh (applies the patch to /repo, runs, reverts) — run only while nothing else uses /repo.
cd /verif
python3 - <<'PY' > /tmp/sweep.list
import json,glob,os
over={'C01-4':('C01','b.body.s.N16'),'C03-1':('C03','edit.strip.S1.be')}
for d in sorted(glob.glob('/verif/seeded/*/')):
    seed=os.path.basename(d.rstrip('/')); m=json.load(open(d+'meta.json')); det=m.get('detected_by') or {}
    if seed in over: print(seed,*over[seed]); continue
    if det.get('missed') or not det.get('jobs'): print(seed, m['property'], '-'); continue
    print(seed, det['check'], det['jobs'][0])
PY
while read seed chk job; do
  if [ "$job" = "-" ]; then echo "seed=$seed SKIPPED (recorded as missed: outside every bound)"; continue; fi
  ONLY="$job" vf/run_seeded.sh $seed $chk 2>&1 | head -1
done < /tmp/sweep.list
