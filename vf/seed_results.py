#!/usr/bin/env python3
"""Collects /tmp/seedrun-<seed>-<PROP>.log into seeded/<seed>/meta.json (detected_by) and seeded/RESULTS.md."""
import glob, json, os, re
rows = []
for d in sorted(glob.glob('/verif/seeded/*/')):
    seed = os.path.basename(d.rstrip('/'))
    mp = d + 'meta.json'
    if not os.path.exists(mp): continue
    meta = json.load(open(mp))
    logs = sorted(glob.glob(f'/tmp/seedrun-{seed}-*.log'))
    det = meta.get('detected_by')
    for lg in logs:
        prop = lg.rsplit('-', 1)[1][:-4]
        txt = open(lg).read()
        v = re.findall(r'^VIOLATION property=\S+ replay=\S+\n\s+job=(\S+) obligation=\S+ (.*?) at ', txt, re.M)
        u = re.findall(r'^UNCONFIRMED-COUNTEREXAMPLE', txt, re.M)
        if v:
            det = {"check": prop, "tier": "quick", "jobs": sorted(set(j for j, _ in v))[:6], "obligation": v[0][1], "replay_confirmed": True}
        elif u:
            det = {"check": prop, "tier": "quick", "jobs": [], "obligation": "unconfirmed counterexample", "replay_confirmed": False}
        elif det is None:
            det = {"check": prop, "tier": "quick", "missed": True}
    meta['detected_by'] = det
    json.dump(meta, open(mp, 'w'), indent=1)
    rows.append((seed, meta['needs_to_manifest'], det))
with open('/verif/seeded/RESULTS.md', 'w') as f:
    f.write("# Seeded changes and which check catches them\n\nEach change was written by an independent sub-agent that saw only the property record and a scratch worktree; "
            "I confirmed each (demo passes unchanged, patch applies, builds, full ctest passes, demo fails) before keeping it. `run_seeded.sh` applies the patch to /repo, "
            "runs the quick tier of the property's check, and reverts.\n\n| seed | needs | caught by (quick tier) |\n|---|---|---|\n")
    for seed, needs, det in rows:
        if det is None: c = "not run yet"
        elif det.get('missed'): c = f"**missed** by `{det['check']}` (see DESIGN.md §0.6)"
        else: c = f"`{det['check']}`: {', '.join(det['jobs'][:3])} — {det['obligation']}" + ("" if det.get('replay_confirmed') else " (replay unconfirmed)")
        f.write(f"| {seed} | {needs} | {c} |\n")
print(open('/verif/seeded/RESULTS.md').read())
