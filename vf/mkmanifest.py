#!/usr/bin/env python3
"""Regenerates /verif/MANIFEST.json from vf/manifest_data.py (keeps it schema-valid)."""
import json, os, sys
sys.path.insert(0, os.path.dirname(__file__))
from manifest_data import CLAIMS, NOT_APPLICABLE, NOTES
V = "/verif"
ids = [json.loads(l)["id"] for l in open(f"{V}/properties.jsonl")]
checks = []
for pid in ids:
    if pid in CLAIMS:
        c = CLAIMS[pid]
        checks.append({
            "property_id": pid,
            "quick_cmd": f"./check {pid} --tier quick",
            "thorough_cmd": f"./check {pid} --tier thorough",
            "evidence_file": f"/verif/evidence/{pid}.json",
            "replay_cmd_template": f"./check {pid} --replay {{path}}",
            "engine": "vf-cbmc",
            "level_claimed": {"category": "model_checking", "text": c["text"], "design_ref": c.get("design_ref", f"DESIGN.md §4 {pid}")},
            "level_note": c["note"],
            "technique": c.get("technique", "bounded symbolic execution of the real C sources with CBMC 6.11 (SAT), differential assertion against a spec-derived reference, counterexamples replayed natively under ASan/UBSan"),
        })
na = [{"property_id": p, "reason": NOT_APPLICABLE[p]} for p in ids if p not in CLAIMS]
assert all(p in NOT_APPLICABLE for p in ids if p not in CLAIMS), [p for p in ids if p not in CLAIMS and p not in NOT_APPLICABLE]
m = {
    "version": 1,
    "setup_cmd": "bash /verif/setup.sh",
    "hooks": {
        "guard": "FREEDESKTOP_DBUS_VERIF",
        "enable": "no source hooks are needed: harness translation units #include the real .c files (or link the real TUs compiled by goto-cc with the real build's config.h), so private statics are reachable without touching /repo; the guard name is reserved and unused",
        "baseline_off_cmd": "cmake --build /repo/_build -j16 && ctest --test-dir /repo/_build -j8 --timeout 900",
        "source_commits": [],
        "add_only": True,
    },
    "engines": [{"name": "vf-cbmc", "path": "/verif/vf/runner.py", "serves_properties": [p for p in ids if p in CLAIMS],
                 "kind_free_text": "per-property job lists (vf/jobs/*.py) -> goto-cc of the real sources from /repo's working tree + harness + environment stubs -> one cbmc process per concrete shape with all contents symbolic -> obligations classified (PROP / FINDING / WITNESS / unwinding) -> native ASan/UBSan replay of counterexamples"}],
    "checks": checks,
    "notes": NOTES,
    "not_applicable": na,
}
json.dump(m, open(f"{V}/MANIFEST.json", "w"), indent=1)
print("MANIFEST.json written:", len(checks), "checks,", len(na), "not_applicable")
