PENDING = "check not built yet in this session; planned per DESIGN.md §4 (interim entry, will be replaced by a claim or a final reason)"
CLAIMS = {
 "C16": {
  "text": "Bounded model checking of the real predicates (_dbus_validate_path/_interface/_member/_error_name/_bus_name/_bus_namespace, "
          "_dbus_validate_signature_with_reason, _dbus_string_validate_utf8): for every byte string up to the stated length over the full "
          "256-symbol alphabet and every offset, the verdict equals a reference written from the specification, and no memory-safety check or dbus "
          "assertion can fail. The solver decides all inputs inside the bound at once; nothing is sampled.",
  "note": "Bounds: names/paths N<=8 quick, <=12 thorough; signatures N<=6/8; UTF-8 N<=6/8. Trusted: CBMC's C semantics, the reference "
          "predicates in ref/ref_names.h (spec-derived, <=150 lines), DBusList-as-stack LIFO model in the signature validator (R6). "
          "Known finding F1 (unique names validated leniently) is keyed and tolerated; any other disagreement is a violation.",
 },
}
CLAIMS["C01"] = {
  "text": "Bounded model checking of the parser's attacker-facing kernels. (a) _dbus_header_have_message_untrusted on 16 arbitrary bytes with arbitrary limit and "
          "available length (full 32-bit width, no size bound): verdict and lengths equal the specification's framing arithmetic, no overflow. (b) "
          "_dbus_validate_body_with_reason for each signature of a stated family, every body up to N bytes in both byte orders: memory-safe, no dbus assertion, "
          "terminates, and VALID exactly when an independent spec-derived decoder accepts.",
  "note": "Per-signature jobs (shape concrete, bytes symbolic); N = 8..16 per signature as listed in evidence. Not covered: bodies longer than N, signatures "
          "outside the family, header-field rules (C01.d not built), value read-back through DBusTypeReader. Found and fixed: F5 (CVE-2022-42011). "
          "Trusted: ref/ref_marshal.h, LIFO model of DBusList inside the signature validator, one documented CBMC pointer-difference artifact excluded.",
}
CLAIMS["C04"] = {
  "text": "One-step refinement check of the real bus/services.c against a reference state machine transcribed from the specification's RequestName / ReleaseName "
          "text: from every invariant-satisfying owner queue of length 0..3 (contents symbolic), for every requester, every 32-bit flags word, every limit and policy answer, "
          "the reply code, resulting queue (order and per-entry flags), the NameOwnerChanged/NameLost/NameAcquired multiset, owned-name counters and accessor results equal "
          "the reference. Induction over the asserted invariant extends this to histories of any length within the queue-size bound.",
  "note": "Stubs: driver signal senders (ghost log), transaction hooks (commit = free), 2-slot hash model, symbolic policy/limit. Known finding F3 (REPLACE_EXISTING waiter "
          "jumps the queue) is keyed and tolerated. Not covered: ListNames, signals-before-reply ordering (transaction FIFO), queues longer than 3.",
}
CLAIMS["C06"] = {
  "text": "The real evaluators in bus/policy.c (check_can_send / check_can_receive / check_can_own, create_client_policy) symbolically executed over rule lists of "
          "length 0..3 whose every attribute is a solver variable and a symbolic message; decision and matching-rule count equal a fold written from dbus-daemon(1) "
          "(last match wins, default deny, per-attribute semantics); context order default, group, user, console, mandatory.",
  "note": "Strings <=2-3 bytes (enough for equal / dot-prefix / different), fd ranges full width. Registry ownership questions answered by symbolic booleans shared with the "
          "reference. Not covered: XML parsing of rules, SELinux/AppArmor, denial => no delivery is the C05 dispatch check; C06.f (the gate bus_context_check_security_policy as a skeleton) is included.",
}
CLAIMS["C07"] = {
  "text": "match_rule_matches, match_rule_equal / remove_rule_by_value and bus_matchmaker_disconnected from the real bus/signals.c: for a rule with all 9 flag bits and every "
          "attribute symbolic against a symbolic message (header record + argument cursor), the match verdict equals a reference transcribed from the specification's "
          "Match Rules table, with CBMC pointer/bounds checks on; RemoveMatch removes exactly the most recent equal rule or reports MatchRuleNotFound; disconnect drops exactly the owner's rules.",
  "note": "Strings <=3 bytes (paths <=4), <=2 argument slots. Found and fixed: F2 (argNpath empty-string under-read). C07.b recipient set (no duplicates, exactly the owners of matching rules) included. Not covered: rule text grammar (C07.c not built), per-interface hash pools (R7).",
}
CLAIMS["C09"] = {
  "text": "One-step checks of the real pending-reply book-keeping (bus_connections_expect_reply / _check_reply / bus_connection_drop_pending_replies in bus/connection.c on the real "
          "expirelist.c, dbus-list.c and the real BusTransaction cancel-hook code): from every duplicate-free list of up to 3 open slots with symbolic caller/callee/serial, a reply is "
          "'requested' exactly when the receiver holds an open slot for that sender and serial, the slot is consumed once, no-reply calls open no slot, duplicates are refused, the "
          "per-connection limit holds, disconnects drop or mark slots as the statement prescribes, and cancelling the transaction restores the previous list.",
  "note": "Not covered: synthesis of the NoReply error on expiry (harness OP=3 written but symex of the real send path does not finish; see DESIGN), reply-timeout arithmetic "
          "(floating point), the policy-side use of requested_reply (that is C06.a/b).",
}
CLAIMS["C13"] = {
  "text": "One-step induction with symbolic limits L in [1, INT_MAX]: names per connection (real bus_registry_acquire_service), pending replies per connection (real "
          "bus_connections_expect_reply), match rules per connection (real bus_driver_handle_add_match with callee stubs) and message size (real "
          "_dbus_header_have_message_untrusted, full-width arithmetic): with n <= L before the step, n' <= L after it; the request at the limit is refused with "
          "LimitsExceeded and changes nothing; below the limit it is unaffected.",
  "note": "Not covered: completed / per-user / incomplete connection limits (bus_connection_complete drags in login-info string building and the listener watch machinery), "
          "<limit> parsing. Counters are symbolic, so the induction covers histories of any length for the covered limits.",
}
CLAIMS["C03"] = {
  "text": "Path-complete bounded check of the real bus_dispatch / bus_dispatch_matches / send_one_message with every callee an outcome stub and a ghost event trace: on every "
          "path, stripping of unknown header fields, clearing of the container-instance field and stamping of the sender (the connection's own unique name, or the not-active "
          "placeholder) succeed before any capture / policy / driver / activation / send action, and their failure routes nothing. Unique-name minting "
          "(create_unique_client_name): two consecutive mints from any reachable 32-bit counter state are strictly increasing, so names are never reused; Hello "
          "(bus_driver_handle_hello) names a connection exactly once and refuses a second Hello.",
  "note": "The byte-level effect of the header edits is C12's subject and is not covered. Counters: the last two majors of the 2^62 name space are outside (the code aborts there by design). "
          "Driver-originated sender (org.freedesktop.DBus) is asserted in the C09 expire harness, which is not decided, so it is not claimed here.",
}
CLAIMS["C05"] = {
  "text": "Same path-complete dispatch check, read for unicast: the addressed recipient handed to capture, policy and matchmaker is the current primary owner of the destination; the owner "
          "is sent the message at most once and only after the policy allowed it (and only with fds if it can take them); a refused unicast is delivered to nobody, eavesdroppers "
          "included, and earns an error; a name without owner and without auto-start yields NameHasNoOwner and no delivery; exactly one error emission; the transaction is executed "
          "xor cancelled exactly once.",
  "note": "One bus_dispatch invocation; ordering between messages relies on each invocation running to completion (argument, not explored). FIFO inside a transaction and "
          "'body and header intact' are not covered.",
}
CLAIMS["C08"] = {
  "text": "One-step induction on the real server-side handlers of dbus-auth.c (state handlers, handle_auth, process_data, EXTERNAL and ANONYMOUS mechanism functions, send_ok, "
          "send_rejected, shutdown_mech) from any state satisfying the stated invariant, for every command: AUTHENTICATED only via BEGIN after OK; OK only when EXTERNAL found the "
          "requested identity inside the socket credentials or ANONYMOUS is allowed; REJECTED forgets the identity and counts a failure, max_failures disconnects; BEGIN elsewhere "
          "disconnects; responses follow the specification's server state table; fd passing agreed only after OK.",
  "note": "DBusString / DBusCredentials are ghost-modelled; DBUS_COOKIE_SHA1, the line splitter, the 16 KiB buffering bound and the transport-side gate are outside the claim.",
}
CLAIMS["C14"] = {
  "text": "Fault schedule as a solver variable: inside one real RequestName / ReleaseName / disconnect step of bus/services.c (queue length 0..3) the k-th allocation (mempool, list "
          "node, hook data, hash entry, owned-service link) or the j-th driver signal send fails, k and j unconstrained. On failure the error is NoMemory; after the recorded "
          "cancel hooks run newest-first the owner queue, flags, counters, connection references and the allocation balance equal the snapshot; a retry succeeds with the reference result.",
  "note": "Single faults only. Library-side message building/copying/editing, match-rule and configuration parsing, Hello, AddMatch and routed messages under OOM are not covered "
          "(except: dispatch skeleton shows NoMemory => cancel, never execute).",
}
CLAIMS["C18"] = {
  "text": "(1) Placement, from the path-complete dispatch check: monitors are offered every processed message (bus_transaction_capture) after the sender was stamped and before the "
          "policy gate can refuse it, undeliverable and refused ones included; refused broadcasts are captured as error replies; a monitor that sends anything is disconnected and "
          "none of its message is routed. (2) The real bus_transaction_capture on the real transaction code: each monitor its matchmaker selects gets exactly one copy, nobody else "
          "anything, and with no monitors nothing is staged at all. (3) The real bus_connection_be_monitor: on success every owned name is released once inside the transaction, "
          "ordinary match rules and own pending calls are dropped, the connection is listed as monitor; on failure it stays an ordinary client and added monitor rules are withdrawn.",
  "note": "End-to-end equality of other clients' observations with and without a monitor (whole-bus histories) is not covered; capture/be_monitor shapes are small (<=2 monitors, "
          "<=2 names, <=2 pending replies); name release itself is C04/C14's subject (stubbed here). F9 (CVE-2023-34969) found here and fixed.",
}
CLAIMS["C20"] = {
  "text": "The real dbus-object-tree.c driven through its real register / unregister / dispatch API by 12 scripted histories (symbolic fallback flags) and a call to each of 9 paths "
          "with symbolic handler answers: handlers are offered the call exact-path first, then fallbacks of successively shorter ancestors, stopping at the first HANDLED; occupied "
          "registrations fail and change nothing; the node set equals registered paths plus ancestors (no ghost children); get_object_path_data agrees.",
  "note": "Known finding F6: found_object (UnknownMethod vs UnknownObject) is derived from handler-less fallback flags; tolerated only for paths not covered by any registration. "
          "One-byte path elements, <=4 children per node, scripted (not arbitrary) histories.",
}
CLAIMS["C02"] = {
  "text": "Kernel-level part only: for each signature of a stated family and every well-formed body up to N bytes (well-formedness assumed through the independent decoder), the real "
          "_dbus_marshal_byteswap yields a body that is well-formed in the other byte order, decodes to exactly the same values, is accepted by the real validator, and swaps back to "
          "the original bytes; memory-safety checks and dbus assertions on.",
  "note": "Found and fixed F7 (CVE-2022-42012). NOT covered: building messages through the public construction API, DBusTypeWriter, header creation, dbus_message_copy, whole-message "
          "re-serialisation identity; the leaf write/read harness exists (harness/C02_leaf.c) but the heap-string insert path gave no verdict within 200 s / 15 GB and is not registered.",
}
CLAIMS["C10"] = {
  "text": "Decided part of C10 only: no crash, memory-safety violation, failed dbus assertion or non-termination (within the unwinding bound) in any kernel that handles bytes chosen by "
          "one client — message framing and body validation, byte-order conversion, name/path/signature/UTF-8 predicates, match-rule matching, one SASL server step — plus the dispatch "
          "skeleton's containment facts (an unauthenticated or monitoring sender is disconnected, nothing of its message is routed). Composite of the corresponding jobs, re-run.",
  "note": "Bounded latency for bystanders, fairness, floods, half-sent messages and anything needing a running process and a clock are outside what bounded symbolic execution of kernels "
          "can address and are NOT claimed. Findings F2, F5, F7, F9 were crashes of this kind and are fixed.",
}
CLAIMS["C11"] = {
  "text": "Two solver lemmas on the real code plus a stated (not machine-checked) induction: L1 — framing validity and lengths are a function of the first 16 bytes and the limit only, "
          "'complete' is monotone in the available length and flips exactly at header+body (full 32-bit width); L3 — the body validator's verdict on a frame is independent of the "
          "bytes that follow it in the buffer (self-composition, per signature shape).",
  "note": "L2 (exact consumption of header+body bytes, sticky corruption in the loader loop) has a skeleton harness (harness/C11_loader.c) that is registered only once it decides in "
          "budget; a direct multi-chunk run through the heap-string loader is out of reach. The induction over chunks is an argument in DESIGN.md.",
}
CLAIMS["C12"] = {
  "text": "For every header of a family of concrete layouts (7 field lists with known and unknown field codes, both byte orders) with all value bytes, flags, type, serial and body length "
          "symbolic, ONE edit through the real _dbus_header_set_field_basic (string, object-path, signature and uint32 fields; present -> replaced in place by a shorter, equal or longer "
          "value; absent -> appended), _dbus_header_delete_field or _dbus_header_remove_unknown_fields yields exactly the canonical serialisation of the edited field list: every other "
          "field, the fixed part, the array length word, all alignment padding (zero) and header->padding are as an independent encoder computes them, and every field reads back "
          "through _dbus_header_get_field_basic as set / as before. The canonical serialisation is well-formed by construction; one step from any canonical header is the induction step "
          "for edit sequences within the family.",
  "note": "Layouts are job shapes (R4): at most 5 fields, values up to 11 bytes, headers up to 160 bytes. The body lives in a separate DBusString that none of the encoded functions receives. "
          "Allocation failure during an edit, the dbus_message_set_* argument checks and messages whose mandatory fields were deleted ('fully valid as long as ...') are outside. "
          "Two modelling devices are part of the claim: DBusString storage comes from fixed pool buffers (R19), and the two strlen calls of dbus-marshal-basic.c are a checked oracle.",
}
CLAIMS["C19"] = {
  "text": "(a) Activation helper: on the real decision chain of bus/activation-helper.c, for every bus name and service-file content within the bound, a program is executed at most "
          "once and only for a syntactically valid bus name whose service file declares exactly that Name together with Exec and User. (b-d) Bus side, as skeletons of the real "
          "bus/activation.c with the environment stubbed: joining an activation that is already pending starts nothing and appends the message at the tail of the held messages; a new "
          "activation starts exactly one process and holds exactly the triggering message; the flush dispatches every held auto-start message of a still-connected sender exactly once, "
          "in arrival order, to the new primary owner (a policy refusal earns that sender its own error); the failure fan-out sends every waiting sender exactly one error for its own message.",
  "note": "Held-message lists of length 0..2; hash tables are one-entry maps; service cache refresh is body-less; babysitter / process exit / timeouts / systemd activation are not covered. "
          "Unique names are accepted leniently by the helper (F1).",
}
CLAIMS["C15"] = {
  "text": "Library receive path only: the real _dbus_read_socket_with_unix_fds against kernel answers of every concrete layout that fits the exactly-sized control buffer (no control "
          "message, one non-SCM_RIGHTS message, SCM_RIGHTS with 0..capacity descriptors) with symbolic contents, truncation flag and byte count, on a ghost descriptor table: every "
          "delivered descriptor is handed to the caller in order, open and close-on-exec, or closed exactly once; nothing else is closed; truncation closes everything and fails. "
          "Plus, from the loader skeleton (C11.L2 job re-run here): a frame announcing more descriptors than were received is corrupt, otherwise exactly the announced number moves "
          "from the loader to the message.",
  "note": "NOT covered: the bus's descriptor table across histories, message finalisers, pending-fd timeout and per-connection limit, the send path; refusal to forward fds to peers "
          "without fd support is asserted in the C05 dispatch check. CMSG_DATA is redefined to its pointer form and memcpy is a byte loop (two CBMC 6.11 modelling defects, see DESIGN R18).",
}
CLAIMS["C17"] = {
  "text": "Sequential core only: the real pending-call machinery of dbus-connection.c and dbus-pending-call.c (attach, dbus_connection_dispatch's reply lookup, "
          "complete_pending_call_and_unlock, detach incl. the hash's value-free callback, reply_handler_timeout, dbus_pending_call_cancel, the client-serial counter) with 1-2 calls "
          "attached through the real API and a two-step symbolic schedule of REPLY(r: any 32-bit reply_serial) / TIMEOUT(i) / CANCEL(i): no call is ever notified twice; a reply "
          "completes exactly the attached call whose serial equals its reply_serial and no other; a timeout completes exactly its own call with the local NoReply error; a cancelled "
          "call is never notified; completion detaches the call (no table entry, timeout removed); callbacks run without the connection lock and the lock is balanced; serials are "
          "non-zero and consecutive ones distinct.",
  "note": "Threads, blocking waits (condition variables) and real interleavings are outside: the schedule quantifier is reduced to atomic steps under the connection lock, which a "
          "ghost lock checks for balance only. Connection-close completion of all calls is not covered. Hash table = 2-slot map, messages = ghost records.",
}
NOT_APPLICABLE = {f"C{n:02d}": PENDING for n in range(1, 21)}


NOTES = ("All checks are solver-based (CBMC) over the real sources; see DESIGN.md. Exit 0 = all obligations UNSAT inside the stated bounds; "
         "exit 1 = counterexample (VIOLATION line when the native replay reproduces it); exit 2 = check broken on this tree.")

# ---- second build round: claims extended to what is built now (applied to the joined strings above)
def _rep(k, field, a, b):
    assert a in CLAIMS[k][field], (k, field, a[:50])
    CLAIMS[k][field] = CLAIMS[k][field].replace(a, b, 1)
_rep("C02", "text", "Kernel-level part only: for each signature", "(b) Byte-order conversion: for each signature")
_rep("C02", "text", "memory-safety checks and dbus assertions on.", "memory-safety checks and dbus assertions on. (c) Construction: for 18 value-tree shapes (basic values, strings, structs, arrays incl. empty ones, "
     "dict entries, variants) in both byte orders, with every value symbolic, what the real DBusTypeWriter (the machinery behind dbus_message_iter_append_* / open_container / close_container) produces "
     "equals an independent encoder's output byte for byte, records exactly the signature written, is accepted by the real validator and reads back unchanged through the real DBusTypeReader.")
CLAIMS["C02"]["text"] += (" (d) Long headers: with the position the real reader reports for each header field value shifted by a symbolic multiple of 8 up to the 2^27-byte message "
     "size limit, the real field-position cache returns exactly that position for every present field and 'absent' for every other (4 layouts).")
CLAIMS["C02"]["note"] = ("Found and fixed F7 (CVE-2022-42012). NOT covered: the dbus_message_* wrappers around the writer (argument checks, locking), header creation (header edits are C12), "
     "dbus_message_copy. The validator step of (c) is skipped for arrays of variable-size elements (no verdict). DBusString storage in (c) comes from fixed pool buffers (R19).")
_rep("C03", "note", "The byte-level effect of the header edits is C12's subject and is not covered.", "The byte-level effect of the three sanitising edits is checked by re-running the C12 header-edit jobs "
     "for stripping unknown fields (codes 11..255, incl. >= 128), deleting CONTAINER_INSTANCE and setting SENDER (group C03.d).")
_rep("C05", "text", "the transaction is executed xor cancelled exactly once.", "the transaction is executed xor cancelled exactly once; and (completeness) a unicast message that nothing refused is staged for "
     "the owner exactly once and the transaction executed, whatever the state of the sender's socket.")
_rep("C07", "text", "disconnect drops exactly the owner's rules.", "disconnect drops exactly the owner's rules; AddMatch stores one more entry even when an equal rule exists. Rule text: the value-quoting "
     "kernel find_value equals the specification's quoting rules on every value text of 1..7 bytes; tokenize_rule returns every key/value pair of texts with 1..80 pairs or refuses the text; the RemoveMatch "
     "handler stages no success reply when it fails with a real error.")
_rep("C07", "note", "Not covered: rule text grammar (C07.c not built), per-interface hash pools (R7).", "Found and fixed in the second round: F13 (RemoveMatch of an absent rule acked), F14 (backslash quoting), "
     "F19 (rules truncated after 16 pairs). Not covered: key-level grammar of whole rule strings (per-key validation, argN number syntax), per-interface hash pools (R7).")
_rep("C08", "text", "fd passing agreed only after OK.", "fd passing agreed only after OK; waiting-for-DATA implies a selected mechanism. DBUS_COOKIE_SHA1: on real DBusStrings, the second client response is answered OK "
     "exactly when its hash equals the whole digest for a valid cookie and a non-empty client challenge (60 payload shapes + scanner contract). Transport gate: one socket_handle_watch / socket_do_iteration step "
     "never puts socket data into the message loader before authentication.")
CLAIMS["C08"]["note"] = ("DBusString / DBusCredentials are ghost-modelled in the step job; SHA-1 itself, keyring files, the first cookie response, the line splitter and the 16 KiB buffering bound are outside the claim. "
     "Found and fixed F11 (assertion abort on 'AUTH \\nx').")
_rep("C10", "text", "Composite of the corresponding jobs, re-run.", "Also: the transport skeletons (a corrupt stream disconnects that transport after delivering the complete messages before it; nothing is read into the "
     "loader before authentication) and the expiry of incomplete connections (a peer that has not completed Hello within auth_timeout is closed whether or not it authenticated; 6 concrete time configurations), and the accept gate / accept step of C13 (the bus stops listening exactly at max_incomplete_connections and resumes below it; a failed accept leaves nothing behind). "
     "Composite of the corresponding jobs, re-run.")
_rep("C11", "text", "(self-composition, per signature shape).", "(self-composition, per signature shape); L2 — the loader loop consumes exactly header+body bytes per frame and corruption is sticky; L4 — the transport hands "
     "every framed message to the connection, in order, before it disconnects for corruption, and moves leftover handshake bytes into the loader exactly once, first; L5 — one socket step never reads into the loader "
     "before authentication nor ahead of the handshake leftovers.")
CLAIMS["C11"]["note"] = "A direct multi-chunk run through the heap-string loader is out of reach. The induction over chunks is an argument in DESIGN.md."
_rep("C13", "text", "below the limit it is unaffected.", "below the limit it is unaffected. Connections: after a Hello that bus_connections_check_limits admitted and bus_connection_complete completed, the completed count "
     "and the per-user count are within max_completed_connections / max_connections_per_user.")
_rep("C13", "note", "Not covered: completed / per-user / incomplete connection limits (bus_connection_complete drags in login-info string building and the listener watch machinery), <limit> parsing.",
     "Not covered: <limit> parsing; for max_incomplete_connections the gate function is checked as an inductive step (listening exactly while below the limit), and the real bus_connections_setup_connection is checked as one step from an open gate. Found and fixed F17.")
CLAIMS["C13"]["text"] += (" Accept gate: the real bus_context_check_all_watches keeps 'listening <=> incomplete connections < max_incomplete_connections' and toggles every listening server exactly once when that changes (inductive step over one accept / drop, limit up to 100000). Accept step: the real bus_connections_setup_connection counts and references an accepted connection once, appends it behind the older ones, stays within the limit and re-evaluates the gate; when any of its 10 fallible steps fails or a security module refuses, count, list, reference and callbacks are as before and the per-connection block is freed once.")
_rep("C14", "text", "a retry succeeds with the reference result.", "a retry succeeds with the reference result. Library side: DBusString replace_len / copy_len / insert_bytes on real heap strings, and header edits "
     "(set / delete field, strip unknown fields), with one failing allocation: a failed edit leaves every byte, the length and the padding as they were and succeeds on retry. Connection completion (Hello) with any "
     "single failing step leaves lists, counters, name, policy and the per-user count unchanged.")
CLAIMS["C14"]["note"] = ("Single faults only, except the append job (every combination). Appending a basic value / a descriptor to a message: descriptor accounting and temporary strings on every failure path (contents after a failed append: known finding F24). Message copying, match-rule and configuration parsing, AddMatch and routed messages under OOM are not covered (except: dispatch skeleton shows NoMemory => cancel, "
     "never execute). Found and fixed F15, F17; known findings F8, F10, F16 (strip not atomic), F18 (Hello not atomic after completion), F20, F21, F24.")
_rep("C15", "text", "Library receive path only: the real", "Receive path: the real")
_rep("C15", "text", "exactly the announced number moves from the loader to the message.", "exactly the announced number moves from the loader to the message. Send path: the real do_writing sends a message's "
     "descriptors with exactly the write that starts at byte 0 and with no continuation write, for any split into partial writes. Pending-fd timer: armed exactly while descriptors are pending, never restarted while "
     "they stay pending, and its expiry closes the connection.")
_rep("C15", "note", "message finalisers, pending-fd timeout and per-connection limit, the send path;", "message finalisers beyond close_unix_fds, per-connection fd limits;")
CLAIMS["C15"]["text"] += (" Sender side: the descriptor duplicated by dbus_message_iter_append_basic is recorded in the message or closed on every failure path, never closed twice, "
     "the caller's descriptor is never closed, and the real close_unix_fds closes each held descriptor once; dbus_message_copy duplicates each descriptor once, in order, and closes every duplicate when any step fails. "
     "Recipient side: the real _dbus_message_iter_get_args_valist / dbus_message_iter_get_basic hand out a fresh duplicate of exactly the descriptor the body index refers to, in argument order; a failed call "
     "(type mismatch, index not attached, dup failure) closes every duplicate it made exactly once and never touches the message's own descriptors (11 argument-list shapes of up to 4 arguments).")
_rep("C16", "text", "nothing is sampled.", "nothing is sampled. The public dbus_validate_* functions give the same verdicts on every C string of up to 6 bytes; the RequestName route accepts valid names up to 255 bytes.")
_rep("C17", "text", "Sequential core only: the real pending-call machinery", "Sequential core: the real pending-call machinery")
_rep("C17", "text", "serials are non-zero and consecutive ones distinct.", "serials are non-zero and consecutive ones distinct. Close: after nothing / a reply / a timeout / a cancel, the peer closing runs the real "
     "notify-disconnected path: no call completes twice, nothing stays outstanding. Blocking wait: the real _dbus_connection_block_pending_call under 19 peer scripts with a symbolic clock returns only with the call "
     "completed exactly once — by the reply if one arrived, by a local NoReply only after a finite timeout elapsed (never for an infinite one), by a local error if the peer closed.")
CLAIMS["C17"]["note"] = ("Threads and real interleavings are outside: the schedule quantifier is reduced to atomic steps under the connection lock, which a ghost lock checks for balance only; the blocking wait is "
     "single-threaded. Known finding F12: calls observed by notify or polling never complete when the peer closes. Hash table = 2-slot map keeping the signed/unsigned key distinction, messages = ghost records.")
