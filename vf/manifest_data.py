PENDING = "check not built yet in this session; planned per DESIGN.md §4 (interim entry, will be replaced by a claim or a final reason)"
CLAIMS = {
 "C16": {
  "text": "Bounded model checking of the real predicates (_dbus_validate_path/_interface/_member/_error_name/_bus_name/_bus_namespace, "
          "_dbus_validate_signature_with_reason, _dbus_string_validate_utf8): for every byte string up to the stated length over the full "
          "256-symbol alphabet and every offset, the verdict equals a reference written from the specification, and no memory-safety check or dbus "
          "assertion can fail. The solver decides all inputs inside the bound at once; nothing is sampled.",
  "note": "Bounds: names/paths N<=8 quick, <=12 thorough; signatures N<=6/8; UTF-8 N<=6/8. Trusted: CBMC's C semantics, the reference "
          "predicates in ref/ref_names.h (spec-derived, <=150 lines), DBusList-as-stack LIFO model in the signature validator (R6). "
          "Known finding F1 (unique names validated leniently) is keyed and tolerated; any other disagreement is a violation.",
 },
}
NOT_APPLICABLE = {f"C{n:02d}": PENDING for n in range(1, 21)}
NOTES = ("All checks are solver-based (CBMC) over the real sources; see DESIGN.md. Exit 0 = all obligations UNSAT inside the stated bounds; "
         "exit 1 = counterexample (VIOLATION line when the native replay reproduces it); exit 2 = check broken on this tree.")
