#!/bin/bash
# Native replay of a CBMC counterexample: same harness, same stubs, real sources from /repo.
# exit 1 = reproduced (assertion abort / sanitizer report), 0 = not reproduced.
D="$(cd "$(dirname "$0")" && pwd)"
B="$(mktemp -d /tmp/vf-replay.XXXXXX)"; trap 'rm -rf "$B"' EXIT
gcc -g -O0 -w -fsanitize=address,undefined -fno-sanitize-recover=undefined -fno-omit-frame-pointer \
  -DVF_REPLAY -DHAVE_CONFIG_H -DDBUS_COMPILATION -D_GNU_SOURCE -DDBUS_BUILT_R_DYNAMIC -I/repo -I/repo/_build -I/repo/bus -I/verif/env -I/verif/ref -I/verif/harness -DFRAMES=1 -DGETBUF=1 -DVF_SKIP_FINDINGS=1 \
  /verif/harness/C11_loader.c /repo/dbus/dbus-list.c /verif/env/assert_stubs.c /verif/env/pool_lock.c /verif/env/memfuncs.c /verif/env/vf_replay.c -no-pie -Wl,--unresolved-symbols=ignore-all -o "$B/replay" >"$B/build.log" 2>&1 \
  || { echo "replay build failed"; tail -20 "$B/build.log"; exit 3; }
VF_REPLAY_FILE="$D/inputs.txt" ASAN_OPTIONS=detect_leaks=0:abort_on_error=0 timeout 60 "$B/replay" 2>"$B/err.log"
rc=$?
cp "$B/err.log" "$D/replay.stderr.log" 2>/dev/null; grep -a -m12 -E "vf-show|VF-REPLAY|ERROR: AddressSanitizer|runtime error|^    #[0-4] " "$B/err.log" >&2
echo "replay exit code: $rc"
if [ $rc -eq 124 ]; then echo "NOT REPRODUCED (timeout)"; exit 0; fi
if grep -qE "VF-REPLAY-ASSERT-FAILED|ERROR: AddressSanitizer|runtime error:|SUMMARY: UndefinedBehaviorSanitizer" "$B/err.log"; then echo "REPRODUCED"; exit 1; fi
echo "NOT REPRODUCED"; exit 0
