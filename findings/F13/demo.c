/* F13 demo: RemoveMatch for a rule the caller does not hold.  The property says it "fails with MatchRuleNotFound";
 * the bus queues the success ack first and then the error, so the caller's call completes with the METHOD_RETURN
 * and the error arrives as a stray second reply.  exit 0 = the call failed with MatchRuleNotFound, 1 = it succeeded. */
#include <dbus/dbus.h>
#include <stdio.h>
#include <string.h>
int main (int argc, char **argv)
{
  DBusError e = DBUS_ERROR_INIT; DBusConnection *c; DBusMessage *m, *r; const char *rule = "type='signal',interface='com.example.Nope'";
  c = dbus_connection_open_private (argv[1], &e); if (!c) { printf ("open: %s\n", e.message); return 2; }
  if (!dbus_bus_register (c, &e)) { printf ("register: %s\n", e.message); return 2; }
  m = dbus_message_new_method_call ("org.freedesktop.DBus", "/org/freedesktop/DBus", "org.freedesktop.DBus", "RemoveMatch");
  dbus_message_append_args (m, DBUS_TYPE_STRING, &rule, DBUS_TYPE_INVALID);
  r = dbus_connection_send_with_reply_and_block (c, m, 5000, &e);
  if (r != NULL) { printf ("RemoveMatch of a rule that was never added SUCCEEDED (reply type %s)\n", dbus_message_type_to_string (dbus_message_get_type (r))); return 1; }
  printf ("RemoveMatch failed with %s\n", e.name);
  return strcmp (e.name, "org.freedesktop.DBus.Error.MatchRuleNotFound") == 0 ? 0 : 1;
}
