/* F14 demo: the specification's own example  arg1=\,arg2=','  — an unquoted backslash that is not followed by an apostrophe
 * "represents itself", and the unquoted comma after it ends the value.  The bus instead swallows the character after such a
 * backslash, so  type='signal',arg0=\,member='Ping'  is read as the single key arg0 with value  \,member=Ping .
 * exit 0 = a Ping signal whose first argument is a lone backslash is delivered to the subscriber, 1 = it is not. */
#include <dbus/dbus.h>
#include <stdio.h>
#include <string.h>
static DBusConnection *open_bus (const char *addr) { DBusError e = DBUS_ERROR_INIT; DBusConnection *c = dbus_connection_open_private (addr, &e); if (!c || !dbus_bus_register (c, &e)) { printf ("connect: %s\n", e.message); return NULL; } return c; }
int main (int argc, char **argv)
{
  DBusError e = DBUS_ERROR_INIT; DBusConnection *a = open_bus (argv[1]), *b = open_bus (argv[1]); DBusMessage *m; const char *bs = "\\"; int pings = 0, done = 0, i;
  if (!a || !b) return 2;
  dbus_bus_add_match (a, "type='signal',arg0=\\,member='Ping'", &e); if (dbus_error_is_set (&e)) { printf ("AddMatch refused: %s\n", e.message); return 1; }
  dbus_bus_add_match (a, "type='signal',member='Barrier'", &e); if (dbus_error_is_set (&e)) return 2;
  m = dbus_message_new_signal ("/", "com.example.I", "Ping"); dbus_message_append_args (m, DBUS_TYPE_STRING, &bs, DBUS_TYPE_INVALID); dbus_connection_send (b, m, NULL); dbus_message_unref (m);
  m = dbus_message_new_signal ("/", "com.example.I", "Barrier"); dbus_connection_send (b, m, NULL); dbus_message_unref (m); dbus_connection_flush (b);
  for (i = 0; i < 200 && !done; i++)
    { dbus_connection_read_write (a, 50);
      while ((m = dbus_connection_pop_message (a)) != NULL) { if (dbus_message_is_signal (m, "com.example.I", "Ping")) pings++; if (dbus_message_is_signal (m, "com.example.I", "Barrier")) done = 1; dbus_message_unref (m); } }
  printf ("barrier=%d pings=%d\n", done, pings);
  if (!done) return 2;
  if (pings != 1) { printf ("FAIL: rule  type='signal',arg0=\\,member='Ping'  did not select the Ping signal with arg0 = backslash\n"); return 1; }
  printf ("PASS\n"); return 0;
}
