/* F12 demo: a call observed by a notify callback (or by polling) is never completed when the peer closes the connection:
 * connection_timeout_and_complete_all_pending_calls_unlocked() queues the call's local error but removes the call from the
 * outstanding-call table first, so dbus_connection_dispatch() no longer pairs the error with it.
 * exit 0 = every outstanding call completed exactly once after the close; exit 1 = a call stayed uncompleted. */
#include <dbus/dbus.h>
#include <stdio.h>
#include <string.h>
#include <unistd.h>
static DBusWatch *sw[8]; static int nsw; static DBusConnection *peer; static int notified, stray;
static dbus_bool_t addw (DBusWatch *w, void *d) { sw[nsw++] = w; return TRUE; }
static void remw (DBusWatch *w, void *d) { int i; for (i = 0; i < nsw; i++) if (sw[i] == w) { sw[i] = sw[--nsw]; return; } }
static void newc (DBusServer *s, DBusConnection *c, void *d) { peer = dbus_connection_ref (c); dbus_connection_set_allow_anonymous (c, TRUE); }
static void pump (DBusConnection *a, DBusConnection *b)
{ int i, k; for (k = 0; k < 20; k++) { for (i = 0; i < nsw; i++) if (dbus_watch_get_enabled (sw[i])) dbus_watch_handle (sw[i], DBUS_WATCH_READABLE);
    if (a) dbus_connection_read_write (a, 0); if (b) dbus_connection_read_write (b, 0); } }
static void notify (DBusPendingCall *p, void *d) { notified++; }
static DBusHandlerResult filter (DBusConnection *c, DBusMessage *m, void *d)
{ if (dbus_message_get_reply_serial (m) != 0) { stray++; printf ("# unpaired %s (%s) for serial %u reached the filters\n", dbus_message_type_to_string (dbus_message_get_type (m)), dbus_message_get_error_name (m), dbus_message_get_reply_serial (m)); }
  return DBUS_HANDLER_RESULT_NOT_YET_HANDLED; }
int main (void)
{
  DBusError e = DBUS_ERROR_INIT; DBusServer *srv; DBusConnection *cl; DBusMessage *m; DBusPendingCall *pc = NULL; char *addr; int i;
  alarm (30);
  srv = dbus_server_listen ("unix:tmpdir=/tmp", &e); if (!srv) return 2;
  dbus_server_set_watch_functions (srv, addw, remw, NULL, NULL, NULL); dbus_server_set_new_connection_function (srv, newc, NULL, NULL);
  addr = dbus_server_get_address (srv); cl = dbus_connection_open_private (addr, &e); if (!cl) return 2;
  dbus_connection_set_exit_on_disconnect (cl, FALSE);
  for (i = 0; i < 100 && !(peer && dbus_connection_get_is_authenticated (cl)); i++) pump (cl, peer);
  if (!peer) return 2;
  dbus_connection_add_filter (cl, filter, NULL, NULL);
  m = dbus_message_new_method_call (NULL, "/", "com.example.I", "M");
  if (!dbus_connection_send_with_reply (cl, m, &pc, 25000) || !pc) return 2;
  dbus_pending_call_set_notify (pc, notify, NULL, NULL);
  pump (cl, peer);
  dbus_connection_close (peer);                    /* the peer goes away without replying */
  pump (cl, NULL);
  while (dbus_connection_dispatch (cl) == DBUS_DISPATCH_DATA_REMAINS) ;
  pump (cl, NULL);
  while (dbus_connection_dispatch (cl) == DBUS_DISPATCH_DATA_REMAINS) ;
  printf ("connected=%d notified=%d completed=%d unpaired=%d\n", dbus_connection_get_is_connected (cl), notified, dbus_pending_call_get_completed (pc), stray);
  if (notified != 1 || !dbus_pending_call_get_completed (pc)) { printf ("FAIL: the outstanding call was not completed exactly once after the peer closed\n"); return 1; }
  printf ("PASS\n"); return 0;
}
