/* F11 demo: a handshake line whose command is followed by a blank and then a bare LF makes the
 * server abort in _dbus_string_skip_blank (assertion-enabled builds) instead of answering ERROR. */
#include <config.h>
#include <dbus/dbus-internals.h>
#include <dbus/dbus-auth.h>
#include <dbus/dbus-string.h>
#include <stdio.h>
#include <string.h>
int main (void)
{
  DBusString guid, *buf; const DBusString *out; DBusAuth *auth; DBusAuthState st;
  const char *line = "AUTH \nx\r\n";
  _dbus_string_init_const (&guid, "0123456789abcdef0123456789abcdef");
  auth = _dbus_auth_server_new (&guid);
  _dbus_auth_get_buffer (auth, &buf);
  _dbus_string_append (buf, line);
  _dbus_auth_return_buffer (auth, buf);
  st = _dbus_auth_do_work (auth);
  if (_dbus_auth_get_bytes_to_send (auth, &out)) printf ("server answered: %s", _dbus_string_get_const_data (out));
  printf ("state %d\n", st);
  return 0;
}
