#!/bin/sh
# usage: demo.sh <source root> <build dir>
SRC=${1:-/repo}; BLD=${2:-/repo/_build}; T=$(mktemp -d /tmp/f19.XXXXXX); trap 'kill $PID 2>/dev/null; rm -rf "$T"' EXIT
cc -O0 -g -I"$SRC" -I"$BLD" "$(dirname "$0")/demo.c" -o "$T/demo" -L"$BLD/lib" -ldbus-1 -Wl,-rpath,"$BLD/lib" || exit 2
cat > "$T/bus.conf" <<EOC
<!DOCTYPE busconfig PUBLIC "-//freedesktop//DTD D-Bus Bus Configuration 1.0//EN" "http://www.freedesktop.org/standards/dbus/1.0/busconfig.dtd">
<busconfig><type>session</type><listen>unix:path=$T/sock</listen><auth>EXTERNAL</auth>
<policy context="default"><allow send_destination="*" eavesdrop="true"/><allow eavesdrop="true"/><allow own="*"/></policy></busconfig>
EOC
"$BLD/bin/dbus-daemon" --config-file="$T/bus.conf" --nofork --nopidfile & PID=$!
for i in 1 2 3 4 5 6 7 8 9 10; do [ -S "$T/sock" ] && break; sleep 0.2; done
"$T/demo" "unix:path=$T/sock"
