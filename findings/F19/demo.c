/* F19 demo: a match rule with more than 16 key/value pairs.  tokenize_rule() stops after MAX_RULE_TOKENS (16) pairs without an
 * error, so the remaining keys are silently dropped and the stored rule is broader than the one given: here the 17th key
 * arg10='WANTED' is ignored and a signal whose arg10 is 'OTHER' is delivered although the rule does not match it.
 * exit 0 = not delivered (or the rule was refused), 1 = delivered. */
#include <dbus/dbus.h>
#include <stdio.h>
#include <string.h>
static DBusConnection *open_bus (const char *addr) { DBusError e = DBUS_ERROR_INIT; DBusConnection *c = dbus_connection_open_private (addr, &e); if (!c || !dbus_bus_register (c, &e)) { printf ("connect: %s\n", e.message); return NULL; } return c; }
int main (int argc, char **argv)
{
  DBusError e = DBUS_ERROR_INIT; DBusConnection *a = open_bus (argv[1]), *b = open_bus (argv[1]); DBusMessage *m; DBusMessageIter it; int pings = 0, done = 0, i; char rule[1024];
  const char *v[11] = { "v0", "v1", "v2", "v3", "v4", "v5", "v6", "v7", "v8", "v9", "OTHER" };
  if (!a || !b) return 2;
  snprintf (rule, sizeof rule, "type='signal',sender='%s',interface='com.example.I',member='Ping',path='/',eavesdrop='false',"
            "arg0='v0',arg1='v1',arg2='v2',arg3='v3',arg4='v4',arg5='v5',arg6='v6',arg7='v7',arg8='v8',arg9='v9',arg10='WANTED'", dbus_bus_get_unique_name (b));
  dbus_bus_add_match (a, rule, &e); if (dbus_error_is_set (&e)) { printf ("AddMatch refused (%s): fine\n", e.name); return 0; }
  dbus_bus_add_match (a, "type='signal',member='Barrier'", &e); if (dbus_error_is_set (&e)) return 2;
  m = dbus_message_new_signal ("/", "com.example.I", "Ping"); dbus_message_set_destination (m, dbus_bus_get_unique_name (a));
  dbus_message_iter_init_append (m, &it); for (i = 0; i < 11; i++) dbus_message_iter_append_basic (&it, DBUS_TYPE_STRING, &v[i]);
  /* unicast delivery to a would happen anyway: send it WITHOUT destination so that only the match rule can select it */
  dbus_message_set_destination (m, NULL);
  dbus_connection_send (b, m, NULL); dbus_message_unref (m);
  m = dbus_message_new_signal ("/", "com.example.I", "Barrier"); dbus_connection_send (b, m, NULL); dbus_message_unref (m); dbus_connection_flush (b);
  for (i = 0; i < 200 && !done; i++)
    { dbus_connection_read_write (a, 50);
      while ((m = dbus_connection_pop_message (a)) != NULL) { if (dbus_message_is_signal (m, "com.example.I", "Ping")) pings++; if (dbus_message_is_signal (m, "com.example.I", "Barrier")) done = 1; dbus_message_unref (m); } }
  printf ("barrier=%d pings=%d\n", done, pings);
  if (!done) return 2;
  if (pings) { printf ("FAIL: a signal with arg10='OTHER' was delivered through a rule that requires arg10='WANTED' (17th key dropped)\n"); return 1; }
  printf ("PASS\n"); return 0;
}
