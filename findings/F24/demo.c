/* F24: dbus_message_iter_append_basic under a single allocation failure returns FALSE but leaves the message changed
 * (the value is in the body while the SIGNATURE header field still describes the old body, or the signature field was
 * updated and the body not): "message contents exactly as it was" (C14) does not hold.  The source documents this as a
 * @todo ("the message is hosed").  For every body prefix 0..64 bytes and every failing allocation index k. */
#include <config.h>
#include <dbus/dbus.h>
#include <dbus/dbus-internals.h>
#include <dbus/dbus-test.h>
#include <stdio.h>
#include <stdlib.h>
#include <string.h>

static DBusMessage *make_message (int prefix_len)
{
  DBusMessage *m = dbus_message_new_method_call ("com.example.Dest", "/com/example/Obj", "com.example.Iface", "Method");
  DBusMessageIter it; int i;
  if (m == NULL) exit (2);
  dbus_message_iter_init_append (m, &it);
  for (i = 0; i < prefix_len; i++) { unsigned char b = (unsigned char) i; if (!dbus_message_iter_append_basic (&it, DBUS_TYPE_BYTE, &b)) exit (2); }
  return m;
}
int main (void)
{
  int prefix_len, k, failures = 0, injected = 0;
  for (prefix_len = 0; prefix_len <= 64; prefix_len++)
    for (k = 0; k < 12; k++)
      {
        DBusMessage *m = make_message (prefix_len); DBusMessageIter it; char *before = NULL, *after = NULL; int before_len = 0, after_len = 0; dbus_uint32_t v = 0xdeadbeef; dbus_bool_t ok;
        dbus_message_set_serial (m, 1);
        if (!dbus_message_marshal (m, &before, &before_len)) return 2;
        dbus_message_iter_init_append (m, &it);
        _dbus_set_fail_alloc_counter (k); _dbus_set_fail_alloc_failures (1);
        ok = dbus_message_iter_append_basic (&it, DBUS_TYPE_UINT32, &v);
        _dbus_set_fail_alloc_counter (_DBUS_INT_MAX);
        if (ok) { dbus_message_unref (m); dbus_free (before); break; }
        injected++;
        if (!dbus_message_marshal (m, &after, &after_len)) return 2;
        if (after_len != before_len || memcmp (before, after, before_len) != 0)
          { if (failures < 8) printf ("FAIL prefix=%d k=%d: append reported no memory but the message changed (%d -> %d bytes, signature now \"%s\")\n", prefix_len, k, before_len, after_len, dbus_message_get_signature (m)); failures++; }
        dbus_free (before); dbus_free (after); dbus_message_unref (m);
      }
  printf ("%d injected failures, %d with changed message contents\n", injected, failures);
  return failures ? 1 : 0;
}
