#!/bin/sh
# usage: demo.sh <source tree root> <build dir>
set -e
SRC=${1:?source tree root}
BLD=${2:?build dir}
HERE=$(cd "$(dirname "$0")" && pwd)
OUT=$(mktemp -d)
trap 'rm -rf "$OUT"' EXIT
cc -g -O1 -DDBUS_COMPILATION -DHAVE_CONFIG_H -D_GNU_SOURCE \
   -I"$SRC" -I"$BLD" "$HERE/demo.c" \
   "$BLD/lib/libdbus-internal.a" -L"$BLD/lib" -Wl,-rpath,"$BLD/lib" -ldbus-1 -lsystemd -lpthread -lrt -o "$OUT/demo"
"$OUT/demo"
