#!/bin/sh
SRC=${1:-/repo}; BLD=${2:-/repo/_build}; T=$(mktemp -d /tmp/f15.XXXXXX); trap 'rm -rf "$T"' EXIT
cc -O0 -g -DDBUS_COMPILATION -DHAVE_CONFIG_H -D_GNU_SOURCE -I"$SRC" -I"$BLD" "$(dirname "$0")/demo.c" -o "$T/demo" -L"$BLD/lib" -ldbus-1 -Wl,-rpath,"$BLD/lib" || exit 2
"$T/demo"
