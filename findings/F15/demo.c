/* F15 demo: a header edit that fails for lack of memory leaves the message's header with its 7 reserved padding bytes:
 * the message still marshals, but to bytes whose header is not padded to a multiple of 8, which no D-Bus peer can parse.
 * Uses the library's own allocation-failure injection (_dbus_set_fail_alloc_counter, embedded-tests builds).
 * exit 0 = after every failed dbus_message_set_* the message still marshals to a valid, identical message; 1 = not. */
#include <config.h>
#include <dbus/dbus.h>
#include <dbus/dbus-internals.h>
#include <stdio.h>
#include <stdlib.h>
#include <string.h>
static int check (DBusMessage *m, const char *what, int k)
{
  char *bytes = NULL; int len = 0; DBusError e = DBUS_ERROR_INIT; DBusMessage *back;
  if (!dbus_message_marshal (m, &bytes, &len)) { printf ("marshal failed\n"); return 2; }
  back = dbus_message_demarshal (bytes, len, &e);
  if (back == NULL) { printf ("FAIL: after %s failed at allocation %d the message marshals to %d bytes that do not parse: %s\n", what, k, len, e.message); dbus_free (bytes); return 1; }
  dbus_message_unref (back); dbus_free (bytes); return 0;
}
int main (void)
{
  int k, bad = 0, failed_edits = 0;
  for (k = 0; k < 40; k++)
    {
      DBusMessage *m = dbus_message_new_method_call ("com.example.Dest", "/com/example/Obj", "com.example.Iface", "Method"); dbus_bool_t ok; const char *s = "payload";
      dbus_message_append_args (m, DBUS_TYPE_STRING, &s, DBUS_TYPE_INVALID);
      dbus_message_set_serial (m, 7);
      _dbus_set_fail_alloc_counter (k);
      ok = dbus_message_set_destination (m, "com.example.A.Much.Longer.Destination.Name");     /* replace by a longer value */
      _dbus_set_fail_alloc_counter (_DBUS_INT_MAX);
      if (!ok) { failed_edits++; bad += check (m, "dbus_message_set_destination", k) == 1; }
      _dbus_set_fail_alloc_counter (k);
      ok = dbus_message_set_interface (m, NULL);                                              /* delete a field */
      _dbus_set_fail_alloc_counter (_DBUS_INT_MAX);
      if (!ok) { failed_edits++; bad += check (m, "dbus_message_set_interface (NULL)", k) == 1; }
      dbus_message_unref (m);
    }
  printf ("failed edits injected: %d, of which left an unparseable message: %d\n", failed_edits, bad);
  return bad ? 1 : 0;
}
