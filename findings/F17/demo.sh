#!/bin/sh
SRC=${1:-/repo}; BLD=${2:-/repo/_build}; T=$(mktemp -d /tmp/f17.XXXXXX); trap 'kill $PID 2>/dev/null; rm -rf "$T"' EXIT
cc -O0 -g -I"$SRC" -I"$BLD" "$(dirname "$0")/demo.c" -o "$T/demo" -L"$BLD/lib" -ldbus-1 -Wl,-rpath,"$BLD/lib" || exit 2
cat > "$T/bus.conf" <<EOC
<!DOCTYPE busconfig PUBLIC "-//freedesktop//DTD D-Bus Bus Configuration 1.0//EN" "http://www.freedesktop.org/standards/dbus/1.0/busconfig.dtd">
<busconfig><type>session</type><listen>unix:path=$T/sock</listen><auth>EXTERNAL</auth>
<limit name="max_connections_per_user">1</limit>
<policy context="default"><allow send_destination="*" eavesdrop="true"/><allow eavesdrop="true"/><allow own="*"/></policy></busconfig>
EOC
DBUS_MALLOC_FAIL_NTH=${NTH:-61} "$BLD/bin/dbus-daemon" --config-file="$T/bus.conf" --nofork --nopidfile 2>"$T/daemon.log" & PID=$!
for i in 1 2 3 4 5 6 7 8 9 10 11 12 13 14 15; do [ -S "$T/sock" ] && break; sleep 0.2; done
[ -S "$T/sock" ] || { echo "daemon did not start"; tail -3 "$T/daemon.log"; exit 2; }
"$T/demo" "unix:path=$T/sock"
