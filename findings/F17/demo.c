/* F17 demo: a Hello whose completion fails for lack of memory after the per-user connection count was incremented leaves that
 * count incremented (bus_connection_complete: "goto fail" after adjust_connections_for_uid (+1)); bus_connection_disconnected only
 * decrements for completed connections.  With one live connection at a time the count must never exceed 1, so with
 * max_connections_per_user = 1 no Hello may ever be refused with LimitsExceeded.  The daemon runs with the library's own
 * DBUS_MALLOC_FAIL_NTH fault injection (embedded-tests builds).  exit 0 = never refused, 1 = refused by the per-user limit. */
#include <dbus/dbus.h>
#include <stdio.h>
#include <string.h>
int main (int argc, char **argv)
{
  int i, limit_hits = 0, ok = 0, other = 0;
  for (i = 0; i < 800 && !limit_hits; i++)
    {
      DBusError e = DBUS_ERROR_INIT; DBusConnection *c = dbus_connection_open_private (argv[1], &e);
      if (!c) { other++; dbus_error_free (&e); continue; }
      dbus_connection_set_exit_on_disconnect (c, FALSE);
      if (dbus_bus_register (c, &e)) ok++;
      else { if (strcmp (e.name, DBUS_ERROR_LIMITS_EXCEEDED) == 0) { limit_hits++; printf ("connection %d: Hello refused: %s\n", i, e.message); } else { other++; if (other < 6) printf ("  hello failed: %s\n", e.name); } dbus_error_free (&e); }
      dbus_connection_close (c); dbus_connection_unref (c);
    }
  printf ("hello ok=%d other failures=%d refused by limit=%d\n", ok, other, limit_hits);
  return limit_hits ? 1 : 0;
}
