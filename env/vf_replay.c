/* Native replay shim: pops the counterexample's input values, in order. */
#define VF_REPLAY 1
#include "vf.h"
#include <string.h>
static FILE *vf_f;
static int vf_exhausted;
unsigned long long vf_replay_next (void)
{
  char line[128];
  if (!vf_f)
    {
      const char *p = getenv ("VF_REPLAY_FILE");
      vf_f = p ? fopen (p, "r") : NULL;
      if (!vf_f) { fprintf (stderr, "vf-replay: cannot open VF_REPLAY_FILE\n"); exit (78); }
    }
  while (fgets (line, sizeof line, vf_f))
    {
      int complete = strchr (line, '\n') != NULL;
      int skip = (line[0] == '#' || line[0] == '\n');
      while (!complete && fgets (line + 1, sizeof line - 1, vf_f))   /* swallow the rest of an over-long line */
        complete = strchr (line + 1, '\n') != NULL;
      if (skip) continue;
      return strtoull (line, NULL, 0);
    }
  vf_exhausted++;
  return 0;
}
void vf_replay_assert_fail (const char *kind, const char *label, const char *file, int line)
{
  fflush (stdout);
  fprintf (stderr, "VF-REPLAY-ASSERT-FAILED %s: %s at %s:%d\n", kind, label, file, line);
  fflush (stderr);
  abort ();
}
void vf_replay_assume_fail (const char *file, int line)
{
  fprintf (stderr, "vf-replay: assumption false at %s:%d (replay diverged)\n", file, line);
  exit (77);
}
void harness (void);
int main (void)
{
  harness ();
  fprintf (stderr, "vf-replay: harness returned normally%s\n", vf_exhausted ? " (inputs exhausted)" : "");
  return 0;
}
