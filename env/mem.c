/* R3: dbus-memory.c is environment.  Thin wrappers over malloc with a ghost
 * live-block counter and an optional fault schedule: allocation number
 * vf_oom_at (1-based, counted over dbus_malloc/malloc0/realloc-grow) fails
 * when vf_oom_at > 0.  vf_oom_at2 gives a second failing call. */
#include <config.h>
#include <dbus/dbus-internals.h>
#include <dbus/dbus-memory.h>
#include <stdlib.h>
#include <string.h>
#include "vf.h"
int vf_alloc_calls;      /* allocation attempts so far */
int vf_live_blocks;      /* ghost: blocks currently allocated */
int vf_oom_at;           /* 0 = never fail */
int vf_oom_at2;
int vf_oom_hit;          /* number of injected failures */
static int vf_should_fail (void)
{
  vf_alloc_calls++;
  if ((vf_oom_at > 0 && vf_alloc_calls == vf_oom_at) || (vf_oom_at2 > 0 && vf_alloc_calls == vf_oom_at2))
    { vf_oom_hit++; return 1; }
  return 0;
}
void *dbus_malloc (size_t bytes)
{
  void *p;
  if (bytes == 0) return NULL;
  if (vf_should_fail ()) return NULL;
  p = malloc (bytes);
  VF_ASSUME (p != NULL);
  vf_live_blocks++;
  return p;
}
void *dbus_malloc0 (size_t bytes)
{
  void *p;
  if (bytes == 0) return NULL;
  if (vf_should_fail ()) return NULL;
  p = calloc (bytes, 1);
  VF_ASSUME (p != NULL);
  vf_live_blocks++;
  return p;
}
void *dbus_realloc (void *memory, size_t bytes)
{
  void *p;
  if (bytes == 0) { dbus_free (memory); return NULL; }
  if (vf_should_fail ()) return NULL;
  p = realloc (memory, bytes);
  VF_ASSUME (p != NULL);
  if (memory == NULL) vf_live_blocks++;
  return p;
}
void dbus_free (void *memory)
{
  if (memory) { vf_live_blocks--; free (memory); }
}
#ifdef VF_REPLAY
__attribute__ ((weak))        /* a harness may bring its own (gcc refuses the duplicate that goto-cc resolves in favour of the harness) */
#endif
void dbus_free_string_array (char **str_array)
{
  if (str_array)
    {
      int i = 0;
      while (str_array[i]) { dbus_free (str_array[i]); i++; }
      dbus_free (str_array);
    }
}
dbus_bool_t _dbus_register_shutdown_func (DBusShutdownFunction function, void *data) { return 1; }
dbus_bool_t _dbus_register_shutdown_func_unlocked (DBusShutdownFunction function, void *data) { return 1; }
