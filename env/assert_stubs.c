/* R2: dbus's own assertions are obligations; logging/formatting is empty. */
#include <config.h>
#include <dbus/dbus-internals.h>
#include <stdarg.h>
#include "vf.h"
/* vf_assert_as_assume: a harness may run a *preparatory* call whose internal assertions
 * define the reachable pre-state (they are then assumptions, stated in the job) */
int vf_assert_as_assume;
void _dbus_real_assert (dbus_bool_t condition, const char *condition_text, const char *file, int line, const char *func)
{ if (!condition) VF_SHOW ("_dbus_assert (%s) failed at %s:%d\n", condition_text, file, line);
  if (!vf_assert_as_assume) VF_ASSERT (condition, "dbus internal assertion (_dbus_assert)"); VF_ASSUME (condition); }
void _dbus_real_assert_not_reached (const char *explanation, const char *file, int line)
{ if (!vf_assert_as_assume) VF_ASSERT (0, "dbus _dbus_assert_not_reached"); VF_ASSUME (0); }
void _dbus_verbose_real (const char *file, const int line, const char *function, const char *format, ...) { }
void _dbus_warn_check_failed (const char *format, ...) { VF_ASSERT (0, "dbus _dbus_warn_check_failed (public API precondition)"); }
void _dbus_warn (const char *format, ...) { }
void _dbus_warn_return_if_fail (const char *function, const char *assertion, const char *file, int line)
{ VF_ASSERT (0, "dbus _dbus_return_if_fail precondition"); }
dbus_bool_t _dbus_get_verbose (void) { return 0; }
void _dbus_set_verbose (dbus_bool_t state) { }
const char *_dbus_no_memory_message = "Not enough memory";
