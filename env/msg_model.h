/* R8: at bus level a DBusMessage is a record of its header fields; the
 * accessors (env/msg_model.c) return those fields consistently. */
#ifndef VF_MSG_MODEL_H
#define VF_MSG_MODEL_H
#include <dbus/dbus.h>
struct DBusMessage
{
  int refcount;
  int type;                   /* 1..4 */
  dbus_uint32_t serial, reply_serial;
  unsigned int n_fds;
  const char *path, *iface, *member, *error_name, *dest, *sender, *signature, *container;
  dbus_bool_t no_reply, auto_start;
  dbus_bool_t locked;
  int id;
  /* ghost: header edits performed by the code under test */
  int g_sender_set, g_unknown_removed, g_container_cleared;
  const char *g_last_sender;
};
#define VF_STRMAX 3
/* NULL or a symbolic string of <= maxlen bytes held in buf[maxlen+1] */
const char *vf_symstr (char *buf, int maxlen, int may_be_null);
void vf_msg_symbolic (struct DBusMessage *m, char store[][VF_STRMAX + 1]);
int vf_streq (const char *a, const char *b);
#endif
