#include <config.h>
#include <dbus/dbus-internals.h>
#include "msg_model.h"
#include "vf.h"
#include <string.h>

const char *vf_symstr (char *buf, int maxlen, int may_be_null)
{
  int i;
  if (may_be_null && vf_bool ()) return 0;
  for (i = 0; i < maxlen; i++) buf[i] = (char) vf_u8 ();
  buf[maxlen] = 0;
  return buf;
}
int vf_streq (const char *a, const char *b)
{
  int i;
  for (i = 0; ; i++) { if (a[i] != b[i]) return 0; if (!a[i]) return 1; }
}
void vf_msg_symbolic (struct DBusMessage *m, char store[][VF_STRMAX + 1])
{
  m->refcount = 1;
  m->type = vf_range (1, 4);
  m->serial = vf_u32 (); m->reply_serial = vf_u32 (); m->n_fds = vf_u32 ();
  m->path = vf_symstr (store[0], VF_STRMAX, 1);
  m->iface = vf_symstr (store[1], VF_STRMAX, 1);
  m->member = vf_symstr (store[2], VF_STRMAX, 1);
  m->error_name = vf_symstr (store[3], VF_STRMAX, 1);
  m->dest = vf_symstr (store[4], VF_STRMAX, 1);
  m->sender = vf_symstr (store[5], VF_STRMAX, 1);
  m->signature = "";
  m->container = 0;
  m->no_reply = vf_bool (); m->auto_start = vf_bool ();
}
int dbus_message_get_type (DBusMessage *m) { return m->type; }
dbus_uint32_t dbus_message_get_serial (DBusMessage *m) { return m->serial; }
dbus_uint32_t dbus_message_get_reply_serial (DBusMessage *m) { return m->reply_serial; }
const char *dbus_message_get_path (DBusMessage *m) { return m->path; }
const char *dbus_message_get_interface (DBusMessage *m) { return m->iface; }
const char *dbus_message_get_member (DBusMessage *m) { return m->member; }
const char *dbus_message_get_error_name (DBusMessage *m) { return m->error_name; }
const char *dbus_message_get_destination (DBusMessage *m) { return m->dest; }
const char *dbus_message_get_sender (DBusMessage *m) { return m->sender; }
const char *dbus_message_get_signature (DBusMessage *m) { return m->signature; }
const char *dbus_message_get_container_instance (DBusMessage *m) { return m->container; }
dbus_bool_t dbus_message_get_no_reply (DBusMessage *m) { return m->no_reply; }
dbus_bool_t dbus_message_get_auto_start (DBusMessage *m) { return m->auto_start; }
unsigned int _dbus_message_get_n_unix_fds (DBusMessage *m) { return m->n_fds; }
dbus_bool_t dbus_message_has_destination (DBusMessage *m, const char *n) { return m->dest != 0 && vf_streq (m->dest, n); }
dbus_bool_t dbus_message_has_sender (DBusMessage *m, const char *n) { return m->sender != 0 && vf_streq (m->sender, n); }
dbus_bool_t dbus_message_has_interface (DBusMessage *m, const char *n) { return m->iface != 0 && vf_streq (m->iface, n); }
dbus_bool_t dbus_message_has_member (DBusMessage *m, const char *n) { return m->member != 0 && vf_streq (m->member, n); }
dbus_bool_t dbus_message_has_path (DBusMessage *m, const char *n) { return m->path != 0 && vf_streq (m->path, n); }
dbus_bool_t dbus_message_is_signal (DBusMessage *m, const char *i, const char *me)
{ return m->type == DBUS_MESSAGE_TYPE_SIGNAL && m->iface && vf_streq (m->iface, i) && m->member && vf_streq (m->member, me); }
dbus_bool_t dbus_message_is_method_call (DBusMessage *m, const char *i, const char *me)
{ return m->type == DBUS_MESSAGE_TYPE_METHOD_CALL && m->member && vf_streq (m->member, me) && (m->iface == 0 || vf_streq (m->iface, i)); }
dbus_bool_t dbus_message_is_error (DBusMessage *m, const char *e)
{ return m->type == DBUS_MESSAGE_TYPE_ERROR && m->error_name && vf_streq (m->error_name, e); }
DBusMessage *dbus_message_ref (DBusMessage *m) { m->refcount++; return m; }
void dbus_message_unref (DBusMessage *m) { VF_ASSERT (m->refcount > 0, "message unref below zero"); m->refcount--; }
