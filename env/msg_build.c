/* R8 (construction side): bus-originated messages are records too. */
#include <config.h>
#include <dbus/dbus-internals.h>
#include <stdlib.h>
#include "msg_model.h"
#include "vf.h"
extern int vf_alloc_calls, vf_oom_at, vf_oom_at2, vf_oom_hit;
int vf_msgs_built;
static int vf_fail (void)
{
  vf_alloc_calls++;
  if ((vf_oom_at > 0 && vf_alloc_calls == vf_oom_at) || (vf_oom_at2 > 0 && vf_alloc_calls == vf_oom_at2)) { vf_oom_hit++; return 1; }
  return 0;
}
DBusMessage *dbus_message_new (int type)
{
  struct DBusMessage *m;
  if (vf_fail ()) return 0;
  m = calloc (1, sizeof (struct DBusMessage));
  VF_ASSUME (m != 0);
  m->refcount = 1; m->type = type; m->id = 100 + vf_msgs_built++;
  return m;
}
DBusMessage *dbus_message_new_error (DBusMessage *reply_to, const char *name, const char *text)
{
  struct DBusMessage *m;
  /* public-API precondition (dbus_message_set_reply_serial: _dbus_return_val_if_fail (reply_serial != 0)), fatal in builds with checks */
  VF_ASSERT (reply_to->serial != 0, "dbus_message_new_error is only given messages that carry a serial number");
  m = dbus_message_new (DBUS_MESSAGE_TYPE_ERROR);
  if (!m) return 0;
  m->error_name = name; m->reply_serial = reply_to->serial; m->dest = reply_to->sender; m->no_reply = 1;
  return m;
}
void dbus_message_set_serial (DBusMessage *m, dbus_uint32_t s) { m->serial = s; }
void dbus_message_set_no_reply (DBusMessage *m, dbus_bool_t v) { m->no_reply = v; }
dbus_bool_t dbus_message_set_reply_serial (DBusMessage *m, dbus_uint32_t s) { if (vf_fail ()) return 0; m->reply_serial = s; return 1; }
dbus_bool_t dbus_message_set_error_name (DBusMessage *m, const char *n) { if (vf_fail ()) return 0; m->error_name = n; return 1; }
dbus_bool_t dbus_message_set_sender (DBusMessage *m, const char *n) { if (vf_fail ()) return 0; m->sender = n; m->g_sender_set++; m->g_last_sender = n; return 1; }
dbus_bool_t dbus_message_set_destination (DBusMessage *m, const char *n) { if (vf_fail ()) return 0; m->dest = n; return 1; }
dbus_bool_t dbus_message_set_container_instance (DBusMessage *m, const char *p) { if (vf_fail ()) return 0; m->container = p; if (!p) m->g_container_cleared++; return 1; }
void dbus_message_iter_init_append (DBusMessage *m, DBusMessageIter *i) { }
dbus_bool_t dbus_message_iter_append_basic (DBusMessageIter *i, int type, const void *v) { return !vf_fail (); }
