/* R3: global locks succeed; DBusMemPool = typed malloc per element (list nodes). */
#include <config.h>
#include <dbus/dbus-internals.h>
#include <dbus/dbus-mempool.h>
#include <dbus/dbus-list.h>
#include <stdlib.h>
#include "vf.h"
extern int vf_live_blocks;
dbus_bool_t _dbus_lock (DBusGlobalLock l) { return 1; }
void _dbus_unlock (DBusGlobalLock l) { }
struct DBusMemPool { int n; int elem; };
static struct DBusMemPool vf_pool;
int vf_pool_fail_at; int vf_pool_calls;
DBusMemPool *_dbus_mem_pool_new (int element_size, dbus_bool_t zero_elements)
{ VF_ASSERT (element_size == sizeof (DBusList), "pool model serves DBusList nodes only"); vf_pool.n = 0; vf_pool.elem = element_size; return &vf_pool; }
void _dbus_mem_pool_free (DBusMemPool *p) { }
void *_dbus_mem_pool_alloc (DBusMemPool *p)
{
  DBusList *m;
  vf_pool_calls++;
  if (vf_pool_fail_at > 0 && vf_pool_calls == vf_pool_fail_at) return NULL;
  m = malloc (sizeof (DBusList));
  VF_ASSUME (m != NULL);
  m->prev = 0; m->next = 0; m->data = 0; p->n++;
  return m;
}
/* hand-built pre-state nodes may be freed before the pool was ever created (p == NULL) */
dbus_bool_t _dbus_mem_pool_dealloc (DBusMemPool *p, void *e) { free (e); if (p) p->n--; return 0; }
