/* R19: the real dbus/dbus-string.c, included into the harness TU, except that _dbus_string_init hands out fixed, 8-aligned
 * buffers from a static pool and _dbus_string_free only invalidates.  Heap-backed DBusStrings are expensive for CBMC because
 * fixup_alignment() derives align_offset from the numeric address of the allocation, which makes every later position in the
 * string symbolic; with pool buffers all positions stay constants.  Growth beyond VF_STR_CAP - 8 would go to the real
 * reallocate(): harnesses keep strings shorter and assert pool exhaustion. */
#ifndef VF_POOL_STRINGS_H
#define VF_POOL_STRINGS_H
#ifndef VF_NSTR
#define VF_NSTR 16
#endif
#ifndef VF_STR_CAP
#define VF_STR_CAP 96
#endif
#define _dbus_string_init vf_unused_string_init
#define _dbus_string_free vf_unused_string_free
#include "/repo/dbus/dbus-string.c"
#undef _dbus_string_init
#undef _dbus_string_free
/* separate 1-D objects (not one 2-D array): each stays within --max-field-sensitivity-array-size, so constant bytes stay constants */
#define VF_PB(n) static unsigned char vf_pb##n[VF_STR_CAP] __attribute__ ((aligned (8)))
VF_PB (0); VF_PB (1); VF_PB (2); VF_PB (3); VF_PB (4); VF_PB (5); VF_PB (6); VF_PB (7); VF_PB (8); VF_PB (9); VF_PB (10); VF_PB (11); VF_PB (12); VF_PB (13); VF_PB (14); VF_PB (15);
static unsigned char *const vf_pool[16] = { vf_pb0, vf_pb1, vf_pb2, vf_pb3, vf_pb4, vf_pb5, vf_pb6, vf_pb7, vf_pb8, vf_pb9, vf_pb10, vf_pb11, vf_pb12, vf_pb13, vf_pb14, vf_pb15 };
static int vf_pool_used;
dbus_bool_t _dbus_string_init (DBusString *str)
{
  DBusRealString *r = (DBusRealString *) str;
  VF_ASSERT (vf_pool_used < VF_NSTR, "string pool large enough (harness bound)");
  r->str = vf_pool[vf_pool_used++]; r->len = 0; r->allocated = VF_STR_CAP; r->constant = 0; r->locked = 0; r->valid = 1; r->align_offset = 0; r->str[0] = 0;
  return 1;
}
void _dbus_string_free (DBusString *str) { DBusRealString *r = (DBusRealString *) str; if (!r->constant) r->valid = 0; }
#endif
