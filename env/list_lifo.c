/* R6: array-backed LIFO model of DBusList used as a stack inside loops over
 * symbolic input (element_count_stack of the signature validator).  Contract:
 * append pushes, pop_last pops (NULL when empty), clear empties. */
#include <config.h>
#include <dbus/dbus-internals.h>
#include <dbus/dbus-list.h>
#include "vf.h"
#define VF_LIFO_CAP 80
static void *vf_stk[VF_LIFO_CAP]; static int vf_sp;
static DBusList vf_tok;
dbus_bool_t _dbus_list_append (DBusList **list, void *data)
{ VF_ASSERT (vf_sp < VF_LIFO_CAP, "LIFO model capacity"); vf_stk[vf_sp++] = data; *list = &vf_tok; return 1; }
void *_dbus_list_pop_last (DBusList **list)
{ void *d; if (vf_sp == 0) return 0; d = vf_stk[--vf_sp]; if (vf_sp == 0) *list = 0; return d; }
void _dbus_list_clear (DBusList **list) { vf_sp = 0; *list = 0; }
