/* vf.h — input / assertion layer shared by every harness.
 *
 * Under CBMC (default): every input is a nondet value that is also emitted as a
 * trace OUTPUT step ("vf_in"), so a counterexample's inputs can be extracted in
 * execution order.  Natively (-DVF_REPLAY): the same calls pop the recorded
 * values from $VF_REPLAY_FILE, assumptions exit(77), assertions abort.
 *
 *   VF_ASSERT(c, "label")   property obligation            (CBMC: "PROP: label")
 *   VF_FINDING(c, "key")    obligation keyed to known_findings.json ("FINDING:key")
 *   VF_WITNESS("label")     reachability witness; must come back SAT ("WITNESS: label")
 *   VF_ASSUME(c)            stated assumption, placed before the code it constrains
 */
#ifndef VF_H
#define VF_H
#include <stddef.h>
#include <stdint.h>

#ifdef VF_REPLAY
#include <stdio.h>
#include <stdlib.h>
unsigned long long vf_replay_next (void);
void vf_replay_assert_fail (const char *kind, const char *label, const char *file, int line);
void vf_replay_assume_fail (const char *file, int line);
#define VF_NEXT(T) ((T) vf_replay_next ())
#define VF_ASSUME(c) do { if (!(c)) vf_replay_assume_fail (__FILE__, __LINE__); } while (0)
#define VF_ASSERT(c, label) do { if (!(c)) vf_replay_assert_fail ("PROP", label, __FILE__, __LINE__); } while (0)
#define VF_FINDING(c, key) do { if (!(c)) vf_replay_assert_fail ("FINDING", key, __FILE__, __LINE__); } while (0)
#define VF_WITNESS(label) do { } while (0)
#define VF_WITNESS_OPT(label) do { } while (0)
#define __CPROVER_assume(c) VF_ASSUME(c)
#define __CPROVER_DYNAMIC_OBJECT(p) 1
#define __CPROVER_assert(c, m) VF_ASSERT(c, m)
#define VF_DEF_IN(T, name) static inline T vf_##name (void) { return VF_NEXT (T); }
#define VF_SHOW(...) fprintf (stderr, "vf-show: " __VA_ARGS__)
#else
#define VF_ASSUME(c) __CPROVER_assume (c)
#define VF_ASSERT(c, label) __CPROVER_assert ((c), "PROP: " label)
#ifdef VF_SKIP_FINDINGS   /* a harness reused under another property: findings are reported under the property that owns them */
#define VF_FINDING(c, key) do { } while (0)
#else
#define VF_FINDING(c, key) __CPROVER_assert ((c), "FINDING:" key)
#endif
#define VF_SHOW(...) do { } while (0)
#ifdef VF_NO_WITNESS
#define VF_WITNESS(label) do { } while (0)
#else
#define VF_WITNESS(label) __CPROVER_assert (0, "WITNESS: " label)
#endif
/* optional witness: reported when reachable, not required (shape-dependent situations) */
#ifdef VF_NO_WITNESS
#define VF_WITNESS_OPT(label) do { } while (0)
#else
#define VF_WITNESS_OPT(label) __CPROVER_assert (0, "WITNESS?: " label)
#endif
#define VF_DEF_IN(T, name) \
  T nondet_vf_##name (void); \
  static inline T vf_##name (void) { T v = nondet_vf_##name (); __CPROVER_output ("vf_in", v); return v; }
#endif

VF_DEF_IN (unsigned char, u8)
VF_DEF_IN (unsigned short, u16)
VF_DEF_IN (unsigned int, u32)
VF_DEF_IN (unsigned long long, u64)
VF_DEF_IN (int, int)
VF_DEF_IN (long, long)
VF_DEF_IN (_Bool, bool)

/* witness that only exists for shapes where it can be reachable (cond is a compile-time constant) */
#define VF_WITNESS_IF(cond, label) do { if (cond) VF_WITNESS (label); } while (0)
/* int in [lo,hi] */
static inline int vf_range (int lo, int hi) { int v = vf_int (); VF_ASSUME (v >= lo && v <= hi); return v; }
/* fill a byte buffer with inputs */
static inline void vf_bytes (unsigned char *p, int n) { for (int i = 0; i < n; i++) p[i] = vf_u8 (); }

#endif
