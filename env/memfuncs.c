/* CBMC 6.11's built-in memcpy/memmove models lose the copy when the length is not a compile-time constant
 * (byte_update with a symbolic size; observed in the C15 harness: destination unchanged in the trace, native replay
 * did not reproduce).  Harnesses in which such copies can occur link these byte-loop definitions instead. */
#include <stddef.h>
void *memcpy (void *d, const void *s, size_t n)
{ size_t k; for (k = 0; k < n; k++) ((unsigned char *) d)[k] = ((const unsigned char *) s)[k]; return d; }
void *memmove (void *d, const void *s, size_t n)
{
  size_t k;
  if ((unsigned char *) d <= (const unsigned char *) s) for (k = 0; k < n; k++) ((unsigned char *) d)[k] = ((const unsigned char *) s)[k];
  else for (k = n; k > 0; k--) ((unsigned char *) d)[k - 1] = ((const unsigned char *) s)[k - 1];
  return d;
}
