#include <config.h>
#include <dbus/dbus-internals.h>
#include <dbus/dbus-hash.h>
#include <dbus/dbus-list.h>
#include <dbus/dbus-mempool.h>
#include <dbus/dbus-string.h>
#include <dbus/dbus-connection.h>
#include <stdlib.h>
#include <string.h>
#include "bus/bus.h"
#include "bus/connection.h"
#include "bus/services.h"
#include "bus/driver.h"
#include "bus/activation.h"
#include "bus/policy.h"
#include "bus/selinux.h"
#include "bus/apparmor.h"
int nondet_int(void);
dbus_bool_t nondet_bool(void);
/* --- connections: opaque tokens --- */
struct DBusConnection { int id; int refs; int n_owned; };
/* --- locks --- */
dbus_bool_t _dbus_lock(DBusGlobalLock l){return 1;}
void _dbus_unlock(DBusGlobalLock l){}
/* --- mempool = malloc --- */
struct DBusMemPool { int sz; int zero; int n; };
DBusMemPool* _dbus_mem_pool_new(int element_size, dbus_bool_t zero_elements){ DBusMemPool*p=malloc(sizeof *p); if(!p) return 0; p->sz=element_size;p->zero=zero_elements;p->n=0;return p;}
void _dbus_mem_pool_free(DBusMemPool*p){free(p);}
void* dbus_malloc(size_t n){__CPROVER_assert(n<=64,"cap"); return malloc(64);} void* dbus_malloc0(size_t n){return calloc(1,n);} void dbus_free(void*p){free(p);}
char* _dbus_strdup(const char*s){ if(!s) return 0; char*c=malloc(8); if(c) for(int i=0;i<8;i++){c[i]=s[i]; if(!s[i])break;} return c;}
/* --- hash: one-slot string map --- */
struct DBusHashTable { const char *key; void *val; int n; };
struct DBusPreallocatedHash {int x;};
DBusHashTable* _dbus_hash_table_new(DBusHashType t, DBusFreeFunction a, DBusFreeFunction b){ DBusHashTable*h=calloc(1,sizeof *h); return h;}
void _dbus_hash_table_unref(DBusHashTable*h){}
void* _dbus_hash_table_lookup_string(DBusHashTable*h,const char*k){ if(h->n && strcmp(h->key,k)==0) return h->val; return 0;}
dbus_bool_t _dbus_hash_table_insert_string(DBusHashTable*h,char*k,void*v){ __CPROVER_assert(h->n==0||strcmp(h->key,k)==0,"hash model cap"); h->key=k;h->val=v;h->n=1;return 1;}
dbus_bool_t _dbus_hash_table_remove_string(DBusHashTable*h,const char*k){ if(h->n && strcmp(h->key,k)==0){h->n=0;return 1;} return 0;}
DBusPreallocatedHash* _dbus_hash_table_preallocate_entry(DBusHashTable*h){ return malloc(sizeof(struct DBusPreallocatedHash));}
void _dbus_hash_table_free_preallocated_entry(DBusHashTable*h,DBusPreallocatedHash*p){free(p);}
void _dbus_hash_table_insert_string_preallocated(DBusHashTable*h,DBusPreallocatedHash*p,char*k,void*v){ free(p); h->key=k;h->val=v;h->n=1;}
int _dbus_hash_table_get_n_entries(DBusHashTable*h){return h->n;}
/* --- errors --- */
int err_set; const char *err_name;
void dbus_set_error(DBusError*e,const char*name,const char*fmt,...){ err_set=1; err_name=name; if(e){e->name=name;e->message="m";}}
void dbus_set_error_const(DBusError*e,const char*name,const char*m){ err_set=1; err_name=name; if(e){e->name=name;e->message=m;}}
void dbus_error_init(DBusError*e){e->name=0;e->message=0;}
dbus_bool_t dbus_error_is_set(const DBusError*e){return e->name!=0;}
dbus_bool_t dbus_error_has_name(const DBusError*e,const char*n){return e->name&&strcmp(e->name,n)==0;}
void dbus_move_error(DBusError*s,DBusError*d){ if(d){*d=*s;} s->name=0;s->message=0;}
const char bus_no_memory_message[]="oom";
/* --- bus env --- */
int cfg_limit;
int bus_context_get_max_services_per_connection(BusContext*c){return cfg_limit;}
BusActivation* bus_context_get_activation(BusContext*c){return 0;}
const char* bus_context_get_type(BusContext*c){return "session";}
void bus_context_log(BusContext*c,DBusSystemLogSeverity s,const char*m,...){}
dbus_bool_t bus_activation_send_pending_auto_activation_messages(BusActivation*a,BusService*s,BusTransaction*t){return 1;}
dbus_bool_t bus_activation_service_created(BusActivation*a,const char*n,BusTransaction*t,DBusError*e){return 1;}
dbus_bool_t bus_apparmor_allows_acquire_service(DBusConnection*c,const char*t,const char*n,DBusError*e){return 1;}
dbus_bool_t bus_selinux_allows_acquire_service(DBusConnection*c,BusSELinuxID*s,const char*n,DBusError*e){return 1;}
BusSELinuxID* bus_selinux_id_table_lookup(DBusHashTable*t,const DBusString*s){return 0;}
DBusHashTable* bus_selinux_id_table_new(void){return 0;}
dbus_bool_t bus_selinux_id_table_insert(DBusHashTable*t,const char*a,const char*b){return 1;}
int policy_allows_own;
dbus_bool_t bus_client_policy_check_can_own(BusClientPolicy*p,const DBusString*s){return policy_allows_own;}
static int dummy_policy;
BusClientPolicy* bus_connection_get_policy(DBusConnection*c){return (BusClientPolicy*)&dummy_policy;}
dbus_bool_t bus_connection_is_active(DBusConnection*c){return 1;}
static const char *names[4]={":1.0",":1.1",":1.2",":1.3"};
const char* bus_connection_get_name(DBusConnection*c){return names[c->id];}
int bus_connection_get_n_services_owned(DBusConnection*c){return c->n_owned;}
dbus_bool_t bus_connection_add_owned_service(DBusConnection*c,BusService*s){c->n_owned++;return 1;}
void bus_connection_add_owned_service_link(DBusConnection*c,DBusList*l){c->n_owned++; _dbus_list_free_link(l);}
void bus_connection_remove_owned_service(DBusConnection*c,BusService*s){c->n_owned--;}
DBusConnection* dbus_connection_ref(DBusConnection*c){c->refs++;return c;}
void dbus_connection_unref(DBusConnection*c){c->refs--;}
/* --- signal log --- */
#define LOGN 8
struct ev {int kind; int a; int b;} evlog[LOGN]; int nev;
static void lg(int k,int a,int b){ __CPROVER_assert(nev<LOGN,"log cap"); evlog[nev].kind=k;evlog[nev].a=a;evlog[nev].b=b;nev++;}
static int idx(const char*n){ if(!n) return -1; for(int i=0;i<4;i++) if(n==names[i]) return i; return -2;}
dbus_bool_t bus_driver_send_service_acquired(DBusConnection*c,const char*n,BusTransaction*t,DBusError*e){lg(1,c->id,0);return 1;}
dbus_bool_t bus_driver_send_service_lost(DBusConnection*c,const char*n,BusTransaction*t,DBusError*e){lg(2,c->id,0);return 1;}
dbus_bool_t bus_driver_send_service_owner_changed(const char*n,const char*o,const char*nw,BusTransaction*t,DBusError*e){lg(3,idx(o),idx(nw));return 1;}
/* --- transaction hooks --- */
struct hook {BusTransactionCancelFunction f; void*d; DBusFreeFunction fr;} hooks[4]; int nhooks;
dbus_bool_t bus_transaction_add_cancel_hook(BusTransaction*t,BusTransactionCancelFunction f,void*d,DBusFreeFunction fr){ __CPROVER_assert(nhooks<4,"hook cap"); hooks[nhooks].f=f;hooks[nhooks].d=d;hooks[nhooks].fr=fr;nhooks++;return 1;}
