#include <config.h>
#include <dbus/dbus-internals.h>
#include <dbus/dbus-list.h>
/* array-backed LIFO model of DBusList used as a stack: *list is treated as opaque non-NULL token when non-empty */
#define CAP 40
static void *stk[CAP]; static int sp;
static DBusList tok;
dbus_bool_t _dbus_list_append(DBusList **list, void *data){ __CPROVER_assert(sp<CAP,"stack model capacity"); stk[sp++]=data; *list=&tok; return 1;}
void* _dbus_list_pop_last(DBusList **list){ if(sp==0) return 0; void*d=stk[--sp]; if(sp==0)*list=0; return d;}
void _dbus_list_clear(DBusList **list){ sp=0; *list=0;}
