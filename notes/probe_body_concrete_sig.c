#include <config.h>
#include <dbus/dbus-internals.h>
#include <dbus/dbus-string.h>
#include <dbus/dbus-marshal-validate.h>
#include <assert.h>
unsigned char nondet_uchar(void);
int nondet_int(void);
void harness(void){
  unsigned char buf[16] __attribute__((aligned(8)));
  for(int i=0;i<16;i++) buf[i]=nondet_uchar();
  DBusString s, t;
  _dbus_string_init_const_len(&t,SIG,sizeof(SIG)-1);
  int len=nondet_int(); __CPROVER_assume(len>=0&&len<=16);
  _dbus_string_init_const_len(&s,(const char*)buf,len);
  DBusValidity r=_dbus_validate_body_with_reason(&t,0,'l',NULL,&s,0,len);
  assert(r!=DBUS_VALID || len==EXPECTLEN);
#ifdef WITNESS
  assert(r!=DBUS_VALID);
#endif
}
