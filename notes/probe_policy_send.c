#include "/repo/bus/policy.c"
#include <assert.h>
/* ---- env ---- */
int nondet_int(void); unsigned nondet_uint(void); char nondet_char(void); _Bool nondet_bool(void);
struct DBusConnection{int id;}; struct DBusMessage{int x;};
static int m_type; static unsigned m_reply_serial, m_nfds;
static char s_path[3],s_iface[3],s_member[3],s_err[3],s_dest[3];
static const char *m_path,*m_iface,*m_member,*m_err,*m_dest;
int dbus_message_get_type(DBusMessage*m){return m_type;}
dbus_uint32_t dbus_message_get_reply_serial(DBusMessage*m){return m_reply_serial;}
const char* dbus_message_get_path(DBusMessage*m){return m_path;}
const char* dbus_message_get_interface(DBusMessage*m){return m_iface;}
const char* dbus_message_get_member(DBusMessage*m){return m_member;}
const char* dbus_message_get_error_name(DBusMessage*m){return m_err;}
const char* dbus_message_get_destination(DBusMessage*m){return m_dest;}
unsigned int _dbus_message_get_n_unix_fds(DBusMessage*m){return m_nfds;}
static int streq(const char*a,const char*b){ for(int i=0;i<3;i++){ if(a[i]!=b[i]) return 0; if(!a[i]) return 1;} return 1;}
dbus_bool_t dbus_message_has_destination(DBusMessage*m,const char*n){ return m_dest && streq(m_dest,n);}
dbus_bool_t dbus_message_has_sender(DBusMessage*m,const char*n){ return 0;}
static _Bool own_in_queue[2], own_by_prefix[2], svc_exists[2];
static const char *cur_rule_dest[2];
static int which(const char*d){ return d==cur_rule_dest[0]?0:1; }
BusService* bus_registry_lookup(BusRegistry*r,const DBusString*s){ int w=which(_dbus_string_get_const_data(s)); return svc_exists[w]? (BusService*)&own_in_queue[w]:0;}
dbus_bool_t bus_service_owner_in_queue(BusService*s,DBusConnection*c){ return *(_Bool*)s; }
dbus_bool_t bus_connection_is_queued_owner_by_prefix(DBusConnection*c,const char*p){ return own_by_prefix[which(p)];}
/* ---- reference (from dbus-daemon(1)) ---- */
struct R { int allow; int mtype; const char *path,*iface,*member,*err,*dest; unsigned minf,maxf; int eaves,reqrep,bcast,isprefix; };
static int prefix_words(const char*name,const char*pre){ int i=0; while(pre[i]){ if(name[i]!=pre[i]) return 0; i++;} return name[i]==0||name[i]=='.'; }
static int ref_match(const struct R*r,int w,int requested_reply,int have_receiver){
  if(r->mtype!=0 && r->mtype!=m_type) return 0;
  if(m_reply_serial!=0){ if(!requested_reply && r->allow && r->reqrep && !r->eaves) return 0; if(requested_reply && !r->allow && !r->reqrep) return 0; }
  if(r->path && m_path && !streq(m_path,r->path)) return 0;
  if(r->iface){ if(!m_iface){ if(r->allow) return 0; } else if(!streq(m_iface,r->iface)) return 0; }
  if(r->member && m_member && !streq(m_member,r->member)) return 0;
  if(r->err && m_err && !streq(m_err,r->err)) return 0;
  if(r->bcast!=BUS_POLICY_TRISTATE_ANY){ int isb = (m_dest==0 && m_type==DBUS_MESSAGE_TYPE_SIGNAL); if(isb){ if(r->bcast==BUS_POLICY_TRISTATE_FALSE) return 0;} else if(r->bcast==BUS_POLICY_TRISTATE_TRUE) return 0; }
  if(r->dest && !r->isprefix){ if(!have_receiver){ if(!(m_dest&&streq(m_dest,r->dest))) return 0; } else { if(!svc_exists[w]||!own_in_queue[w]) return 0; } }
  if(r->dest && r->isprefix){ if(!have_receiver){ if(!m_dest) return 0; if(!prefix_words(m_dest,r->dest)) return 0; } else if(!own_by_prefix[w]) return 0; }
  if(r->minf>0 || r->maxf<DBUS_MAXIMUM_MESSAGE_UNIX_FDS){ if(m_nfds<r->minf||m_nfds>r->maxf) return 0; }
  return 1; }
static const char* symstr(char*b){ if(nondet_bool()) return 0; b[0]=nondet_char(); b[1]=nondet_char(); b[2]=0; return b; }
#ifndef K
#define K 2
#endif
void harness(void){
  static BusPolicyRule r0,r1; static DBusList l0,l1; static char rs[2][6][3];
  BusPolicyRule *rr[2]={&r0,&r1}; DBusList *ll[2]={&l0,&l1};
  static BusClientPolicy pol; struct R ref[2];
  m_type=nondet_int(); __CPROVER_assume(m_type>=1&&m_type<=4); m_reply_serial=nondet_uint(); m_nfds=nondet_uint();
  m_path=symstr(s_path); m_iface=symstr(s_iface); m_member=symstr(s_member); m_err=symstr(s_err); m_dest=symstr(s_dest);
  for(int i=0;i<K;i++){ BusPolicyRule*r=rr[i];
    r->refcount=1; r->type=BUS_POLICY_RULE_SEND; r->allow=nondet_bool();
    r->d.send.message_type=nondet_int(); __CPROVER_assume(r->d.send.message_type>=0&&r->d.send.message_type<=4);
    r->d.send.path=(char*)symstr(rs[i][0]); r->d.send.interface=(char*)symstr(rs[i][1]); r->d.send.member=(char*)symstr(rs[i][2]); r->d.send.error=(char*)symstr(rs[i][3]); r->d.send.destination=(char*)symstr(rs[i][4]);
    r->d.send.min_fds=nondet_uint(); r->d.send.max_fds=nondet_uint(); r->d.send.eavesdrop=nondet_bool(); r->d.send.requested_reply=nondet_bool(); r->d.send.log=0;
    unsigned b=nondet_uint(); __CPROVER_assume(b<=2); r->d.send.broadcast=b; r->d.send.destination_is_prefix=nondet_bool();
    cur_rule_dest[i]=r->d.send.destination; svc_exists[i]=nondet_bool(); own_in_queue[i]=nondet_bool(); own_by_prefix[i]=nondet_bool();
    ref[i]=(struct R){r->allow,r->d.send.message_type,r->d.send.path,r->d.send.interface,r->d.send.member,r->d.send.error,r->d.send.destination,r->d.send.min_fds,r->d.send.max_fds,r->d.send.eavesdrop,r->d.send.requested_reply,r->d.send.broadcast,r->d.send.destination_is_prefix};
    ll[i]->data=r; ll[i]->next=ll[(i+1)%K]; ll[i]->prev=ll[(i+K-1)%K]; }
  pol.refcount=1; pol.rules=K?&l0:0;
  _Bool reqrep=nondet_bool(); _Bool have_recv=nondet_bool(); static struct DBusConnection rc; static struct DBusMessage msg;
  dbus_int32_t toggles; dbus_bool_t log;
  dbus_bool_t got=bus_client_policy_check_can_send(&pol,(BusRegistry*)&rc,reqrep,have_recv?&rc:0,&msg,&toggles,&log);
  int want=0,tg=0; for(int i=0;i<K;i++) if(ref_match(&ref[i],i,reqrep,have_recv)){ want=ref[i].allow; tg++; }
  assert((got!=0)==(want!=0)); assert(toggles==tg);
#ifdef WITNESS
  assert(!(got && tg==2));
#endif
}
