#include <config.h>
#include <dbus/dbus-internals.h>
#include <dbus/dbus-mempool.h>
#include <dbus/dbus-list.h>
#include <stdlib.h>
dbus_bool_t _dbus_lock(DBusGlobalLock l){return 1;}
void _dbus_unlock(DBusGlobalLock l){}
struct DBusMemPool { int n; };
static struct DBusMemPool thepool;
DBusMemPool* _dbus_mem_pool_new(int element_size, dbus_bool_t zero_elements){ __CPROVER_assert(element_size==sizeof(DBusList),"list pool only"); thepool.n=0; return &thepool;}
void _dbus_mem_pool_free(DBusMemPool*p){}
void* _dbus_mem_pool_alloc(DBusMemPool*p){ DBusList*m=malloc(sizeof(DBusList)); if(m){m->prev=0;m->next=0;m->data=0; p->n++;} return m;}
dbus_bool_t _dbus_mem_pool_dealloc(DBusMemPool*p, void*e){ free(e); p->n--; return p->n==0;}
