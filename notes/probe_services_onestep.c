#include <config.h>
#include <dbus/dbus-memory.h>
#include <stdlib.h>
#undef dbus_new
#undef dbus_new0
#define dbus_new(type,count) ((type*)malloc(sizeof(type)*(count)))
#define dbus_new0(type,count) ((type*)calloc((count),sizeof(type)))
#include "/repo/bus/services.c"
#include <assert.h>
struct DBusConnection { int id; int refs; int n_owned; };
struct DBusHashTable { const char *key; void *val; int n; };
struct DBusMemPool { int sz; int zero; int n; };
extern int cfg_limit, policy_allows_own, nev, err_set;
extern struct ev {int kind; int a; int b;} evlog[];
int nondet_int(void); unsigned nondet_uint(void);
#ifndef QN
#define QN 2
#endif
static struct DBusMemPool sp={sizeof(BusService),1,1}, op={sizeof(BusOwner),1,QN};
void* _dbus_mem_pool_alloc(DBusMemPool*p){ void*m; if(p==&op) m=calloc(1,sizeof(BusOwner)); else if(p==&sp) m=calloc(1,sizeof(BusService)); else m=calloc(1,sizeof(DBusList)); if(m)p->n++; return m;}
dbus_bool_t _dbus_mem_pool_dealloc(DBusMemPool*p, void*e){ if(__CPROVER_DYNAMIC_OBJECT(e)) free(e); p->n--; return p->n==0;}
void harness(void){
  static struct DBusConnection conns[4]={{0,0,0},{1,0,0},{2,0,0},{3,0,0}};
  static BusRegistry reg; static struct DBusHashTable ht; 
  static BusService svc; static BusOwner ow0,ow1,ow2; static DBusList ln0,ln1,ln2; BusOwner *ow[3]={&ow0,&ow1,&ow2}; DBusList *ln[3]={&ln0,&ln1,&ln2};
  static struct DBusConnection c0={0,0,0},c1={1,0,0},c2={2,0,0},c3={3,0,0}; struct DBusConnection *cp[4]={&c0,&c1,&c2,&c3};
  static char nm[]="a.b";
  reg.refcount=1; reg.context=(BusContext*)&conns; reg.service_hash=&ht; reg.service_pool=&sp; reg.owner_pool=&op;
  DBusString name; _dbus_string_init_const_len(&name,"a.b",3);
  cfg_limit=100; policy_allows_own=1;
  int q[3];
  if(QN>0){
    svc.refcount=1; svc.registry=&reg; svc.name=nm; 
    for(int i=0;i<QN;i++){ q[i]=nondet_int(); __CPROVER_assume(q[i]>=0&&q[i]<4); for(int j=0;j<i;j++) __CPROVER_assume(q[j]!=q[i]);
      ow[i]->refcount=1; ow[i]->service=&svc; ow[i]->conn=cp[q[i]]; ow[i]->allow_replacement=nondet_int()&1; ow[i]->do_not_queue=nondet_int()&1;
      cp[q[i]]->n_owned=1;
      ln[i]->data=ow[i]; ln[i]->next=ln[(i+1)%QN]; ln[i]->prev=ln[(i+QN-1)%QN]; }
    svc.owners=ln[0];
    ht.key=nm; ht.val=&svc; ht.n=1;
  }
  int c=nondet_int(); __CPROVER_assume(c>=0&&c<4); unsigned f=nondet_uint(); __CPROVER_assume(f<8);
  dbus_uint32_t res; DBusError e; nev=0; e.name=0;
  dbus_bool_t ok=bus_registry_acquire_service(&reg,cp[c],&name,f,&res,(BusTransaction*)&conns,&e);
  assert(ok);
  BusService *s=bus_registry_lookup(&reg,&name);
  assert(s!=0);
  DBusConnection *prim=bus_service_get_primary_owners_connection(s);
  if(QN==0) assert(res==DBUS_REQUEST_NAME_REPLY_PRIMARY_OWNER && prim==cp[c]);
  else if(q[0]==c) assert(res==DBUS_REQUEST_NAME_REPLY_ALREADY_OWNER && prim==cp[c]);
#ifdef WITNESS
  assert(!(res==DBUS_REQUEST_NAME_REPLY_PRIMARY_OWNER && q[0]!=c));
#endif
}
