#include <config.h>
#include <dbus/dbus-internals.h>
#include <dbus/dbus-string.h>
#include <dbus/dbus-marshal-validate.h>
#include <assert.h>
#ifndef N
#define N 8
#endif
unsigned char nondet_uchar(void);
int nondet_int(void);
static int is_ini(unsigned char c){return (c>='A'&&c<='Z')||(c>='a'&&c<='z')||c=='_'||c=='-';}
static int is_any(unsigned char c){return is_ini(c)||(c>='0'&&c<='9');}
/* spec: bus names: unique ':' + elements (any of [A-Za-z0-9_-]) ; well-known: elements not starting with digit; >=2 elements; no empty element; len<=255 */
static int ref_bus_name(const unsigned char*s,int len){
  if(len==0||len>255) return 0;
  int uniq = s[0]==':'; int i = uniq?1:0; int nelem=0; 
  if(i>=len) return 0;
  while(1){
    if(i>=len) return 0;
    if(uniq){ if(!is_any(s[i])) return 0; } else { if(!is_ini(s[i])) return 0; }
    i++;
    while(i<len && s[i]!='.'){ if(!is_any(s[i])) return 0; i++; }
    nelem++;
    if(i==len) break;
    i++; /* skip '.' */
  }
  return nelem>=2;
}
void harness(void){
  unsigned char buf[N+1];
  int len = nondet_int();
  __CPROVER_assume(len>=0 && len<=N);
  for(int i=0;i<N;i++) buf[i]=nondet_uchar();
  buf[len]=0;
  DBusString s;
  _dbus_string_init_const_len(&s,(const char*)buf,len);
  dbus_bool_t r=_dbus_validate_bus_name(&s,0,len);
  assert((r!=0)==(ref_bus_name(buf,len)!=0));
#ifdef WITNESS
  assert(!r);
#endif
}
