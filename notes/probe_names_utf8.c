#include <config.h>
#include <dbus/dbus-internals.h>
#include <dbus/dbus-string.h>
#include <dbus/dbus-marshal-validate.h>
#include <assert.h>
#ifndef N
#define N 8
#endif
unsigned char nondet_uchar(void);
int nondet_int(void);
static int al(unsigned char c){return (c>='A'&&c<='Z')||(c>='a'&&c<='z')||c=='_';}
static int an(unsigned char c){return al(c)||(c>='0'&&c<='9');}
static int ref_iface(const unsigned char*s,int len){
  if(len==0||len>255) return 0; int i=0,nelem=0;
  while(1){ if(i>=len) return 0; if(!al(s[i])) return 0; i++; while(i<len&&s[i]!='.'){ if(!an(s[i])) return 0; i++;} nelem++; if(i==len)break; i++; }
  return nelem>=2; }
static int ref_path(const unsigned char*s,int len){
  if(len==0) return 0; if(s[0]!='/') return 0; if(len==1) return 1;
  int i=1; while(1){ if(i>=len) return 0; /* empty element or trailing slash */ if(!an(s[i])) return 0; while(i<len&&s[i]!='/'){ if(!an(s[i])) return 0; i++;} if(i==len) return 1; i++; } }
/* RFC3629 + no NUL, plus dbus: noncharacters allowed since 1.6? spec: "valid UTF-8"; */
static int ref_utf8(const unsigned char*s,int len){
  int i=0; while(i<len){ unsigned c=s[i]; unsigned cp; int n;
    if(c==0) return 0; if(c<0x80){i++;continue;}
    if(c>=0xC2&&c<=0xDF){n=1;cp=c&0x1F;} else if(c>=0xE0&&c<=0xEF){n=2;cp=c&0x0F;} else if(c>=0xF0&&c<=0xF4){n=3;cp=c&0x07;} else return 0;
    if(i+n>=len) return 0;
    for(int k=1;k<=n;k++){ unsigned d=s[i+k]; if((d&0xC0)!=0x80) return 0; cp=(cp<<6)|(d&0x3F);} 
    if(n==2&&cp<0x800) return 0; if(n==3&&cp<0x10000) return 0; if(cp>0x10FFFF) return 0; if(cp>=0xD800&&cp<=0xDFFF) return 0;
    i+=n+1; }
  return 1; }
void harness(void){
  unsigned char buf[N+1];
  int len = nondet_int();
  __CPROVER_assume(len>=0 && len<=N);
  for(int i=0;i<N;i++) buf[i]=nondet_uchar();
  buf[len]=0;
  DBusString s;
  _dbus_string_init_const_len(&s,(const char*)buf,len);
#if WHICH==1
  assert((_dbus_validate_interface(&s,0,len)!=0)==(ref_iface(buf,len)!=0));
#elif WHICH==2
  assert((_dbus_validate_path(&s,0,len)!=0)==(ref_path(buf,len)!=0));
#elif WHICH==3
  assert((_dbus_string_validate_utf8(&s,0,len)!=0)==(ref_utf8(buf,len)!=0));
#elif WHICH==4
  assert((_dbus_validate_error_name(&s,0,len)!=0)==(ref_iface(buf,len)!=0));
#endif
}
