#include "/repo/bus/signals.c"
#include <assert.h>
int nondet_int(void); unsigned nondet_uint(void); char nondet_char(void); _Bool nondet_bool(void);
struct DBusMessage{int x;}; struct DBusConnection{int x;};
static int a_type; static char a_val[4];
int dbus_message_get_type(DBusMessage*m){return 4;}
const char* dbus_message_get_destination(DBusMessage*m){return 0;}
dbus_bool_t dbus_message_iter_init(DBusMessage*m,DBusMessageIter*i){return 1;}
int dbus_message_iter_get_arg_type(DBusMessageIter*i){return a_type;}
void dbus_message_iter_get_basic(DBusMessageIter*i,void*v){ *(const char**)v=a_val; }
dbus_bool_t dbus_message_iter_next(DBusMessageIter*i){ a_type=0; return 0;}
void harness(void){
  static BusMatchRule rule; static struct DBusMessage msg;
  char *args[1]; int lens[1];
  int elen=nondet_int(); __CPROVER_assume(elen>=0&&elen<=2);
  char *e=malloc(elen+1); __CPROVER_assume(e!=0); for(int i=0;i<elen;i++){ e[i]=nondet_char(); __CPROVER_assume(e[i]!=0);} e[elen]=0;
  int alen=nondet_int(); __CPROVER_assume(alen>=0&&alen<=3); for(int i=0;i<alen;i++){ a_val[i]=nondet_char(); __CPROVER_assume(a_val[i]!=0);} a_val[alen]=0;
  a_type = nondet_bool()? 's' : 'o';
  unsigned kind=nondet_uint(); __CPROVER_assume(kind<3);
  args[0]=e; lens[0]=elen | (kind==1?BUS_MATCH_ARG_IS_PATH:0) | (kind==2?BUS_MATCH_ARG_NAMESPACE:0);
  rule.refcount=1; rule.flags=BUS_MATCH_ARGS; rule.args=args; rule.arg_lens=lens; rule.args_len=1;
  dbus_bool_t r=match_rule_matches(&rule,0,0,&msg,0);
  (void)r;
}
