/* C01.a / C11.L1 / C13.size — _dbus_header_have_message_untrusted on 16
 * arbitrary bytes, arbitrary limit max in [0, INT32_MAX/2) and arbitrary
 * available length len >= 16 (full 32-bit width, no bound): the framing
 * decision equals the specification's ("byte order 'l' or 'B'; header length =
 * 16 + fields array length rounded up to a multiple of 8; total length = header
 * + body; messages longer than the maximum are invalid"), it is computed without
 * overflow or failed assertion, and it is a function of the first 16 bytes and
 * the limit only (two different available lengths give the same verdict and
 * lengths; 'have' is monotone and flips exactly at header+body). */
#include <config.h>
#include <dbus/dbus-internals.h>
#include <dbus/dbus-string.h>
#include <dbus/dbus-marshal-header.h>
#include "vf.h"

static unsigned long long rd32 (const unsigned char *p, int order)
{
  if (order == 'l') return (unsigned long long) p[0] | ((unsigned long long) p[1] << 8) | ((unsigned long long) p[2] << 16) | ((unsigned long long) p[3] << 24);
  return (unsigned long long) p[3] | ((unsigned long long) p[2] << 8) | ((unsigned long long) p[1] << 16) | ((unsigned long long) p[0] << 24);
}

void harness (void)
{
  unsigned char buf[16] __attribute__ ((aligned (8)));
  DBusString s;
  int max = vf_int (), len1 = vf_int (), len2 = vf_int ();
  DBusValidity v1 = 12345, v2 = 12345; int bo1 = 0, bo2 = 0, fal1 = -1, fal2 = -1, hl1 = -1, hl2 = -1, bl1 = -1, bl2 = -1;
  dbus_bool_t have1, have2;
  unsigned long long fal, bl, hl; int ref_valid;

  vf_bytes (buf, 16);
  VF_ASSUME (max >= 0 && max < _DBUS_INT32_MAX / 2);     /* documented precondition (asserted by the function) */
  VF_ASSUME (len1 >= 16 && len2 >= len1);
  _dbus_string_init_const_len (&s, (const char *) buf, 16);

  have1 = _dbus_header_have_message_untrusted (max, &v1, &bo1, &fal1, &hl1, &bl1, &s, 0, len1);
  have2 = _dbus_header_have_message_untrusted (max, &v2, &bo2, &fal2, &hl2, &bl2, &s, 0, len2);

  /* reference decision, 64-bit arithmetic */
  ref_valid = 1;
  if (buf[0] != 'l' && buf[0] != 'B') ref_valid = 0;
  fal = rd32 (buf + 12, buf[0]); bl = rd32 (buf + 4, buf[0]);
  hl = (16 + fal + 7) & ~7ULL;
  if (ref_valid && (fal > (unsigned long long) max || bl > (unsigned long long) max || hl + bl > (unsigned long long) max)) ref_valid = 0;

  VF_ASSERT ((v1 == DBUS_VALID) == (ref_valid != 0), "framing verdict equals the specification's");
  VF_ASSERT (v1 == v2, "verdict does not depend on how many bytes are available");
  if (v1 == DBUS_VALID)
    {
      VF_ASSERT (bo1 == buf[0], "byte order reported");
      VF_ASSERT ((unsigned long long) fal1 == fal && (unsigned long long) bl1 == bl && (unsigned long long) hl1 == hl, "lengths equal the reference decoding");
      VF_ASSERT (hl1 % 8 == 0 && hl1 >= 16, "header length is a multiple of 8");
      VF_ASSERT ((long long) hl1 + bl1 <= max, "accepted message never exceeds the configured maximum");
      VF_ASSERT (fal1 == fal2 && hl1 == hl2 && bl1 == bl2, "lengths do not depend on how many bytes are available");
      VF_ASSERT ((have1 != 0) == ((long long) hl1 + bl1 <= len1), "message is complete exactly when header+body bytes are available");
      VF_ASSERT (!have1 || have2, "completeness is monotone in the available length");
      if (have1) VF_WITNESS ("a complete valid frame");
      if (!have1 && have2) VF_WITNESS ("frame completes when more bytes arrive");
    }
  else
    {
      VF_ASSERT (!have1 && !have2, "an invalid frame is never reported complete");
      if (v1 == DBUS_INVALID_MESSAGE_TOO_LONG) VF_WITNESS ("over-long message rejected");
      if (v1 == DBUS_INVALID_BAD_BYTE_ORDER) VF_WITNESS ("bad byte order rejected");
    }
}
