/* C07.c (tokenizer, pair count) — the real tokenize_rule (bus/signals.c) on a rule text of T key/value pairs
 * "k=v,k=v,...": it either returns every pair, in order, or fails with MatchRuleInvalid — it never returns TRUE
 * with fewer pairs than the text contains (a silently shortened rule matches more messages than the client asked
 * for: F19).  The text is concrete (job shape T, optional trailing blank); this is a bounded run of the real loop. */
#include <config.h>
#undef DBUS_ENABLE_VERBOSE_MODE
#include <dbus/dbus-internals.h>
#include <stdlib.h>
#include <string.h>
#include "vf.h"
#include "msg_model.h"
#define VF_STR_CAP 32
#define VF_NSTR 16
#define _dbus_string_steal_data vf_real_steal_data
#include "pool_strings.h"
#undef _dbus_string_steal_data
struct DBusConnection { int id; };
struct DBusHashTable { int dummy; };
#include "/repo/bus/signals.c"
#ifndef T
#define T 17
#endif
#ifndef TRAIL
#define TRAIL 0
#endif
static const char *vf_err_name;
void dbus_set_error (DBusError *e, const char *name, const char *fmt, ...) { vf_err_name = name; if (e) { e->name = name; e->message = "m"; } }
dbus_bool_t dbus_error_is_set (const DBusError *e) { return e->name != 0; }
void bus_connection_remove_match_rule (DBusConnection *c, BusMatchRule *r) { }
dbus_bool_t bus_connection_add_match_rule (DBusConnection *c, BusMatchRule *r) { return 1; }
dbus_bool_t bus_connection_is_active (DBusConnection *c) { return 1; }
const char *bus_connection_get_name (DBusConnection *c) { return ":1.0"; }
void *_dbus_hash_table_lookup_string (DBusHashTable *h, const char *k) { return 0; }
dbus_bool_t _dbus_hash_table_remove_string (DBusHashTable *h, const char *k) { return 0; }
void _dbus_hash_iter_init (DBusHashTable *t, DBusHashIter *i) { }
dbus_bool_t _dbus_hash_iter_next (DBusHashIter *i) { return 0; }
void *_dbus_hash_iter_get_value (DBusHashIter *i) { return 0; }
void _dbus_hash_iter_remove_entry (DBusHashIter *i) { }
/* token strings are stolen from pool-backed DBusStrings: keep them out of the C allocator */
static char stolen[2 * (T + 2)][4]; static int n_stolen;
dbus_bool_t _dbus_string_steal_data (DBusString *s, char **out)
{ DBusRealString *r = (DBusRealString *) s; int i; VF_ASSERT (n_stolen < 2 * (T + 2) && r->len < 4, "token pool"); for (i = 0; i <= r->len; i++) stolen[n_stolen][i] = (char) r->str[i]; *out = stolen[n_stolen++]; r->len = 0; r->str[0] = 0; return 1; }
void dbus_free (void *p) { }
void *dbus_malloc (size_t n) { void *p = malloc (n); VF_ASSUME (p != 0); return p; }
void *dbus_malloc0 (size_t n) { void *p = calloc (1, n); VF_ASSUME (p != 0); return p; }
void *dbus_realloc (void *q, size_t n) { void *p = realloc (q, n); VF_ASSUME (p != 0); return p; }

void harness (void)
{
  static char text[4 * T + 4]; static RuleToken tokens[MAX_RULE_TOKENS + 1]; DBusString str; DBusError err; dbus_bool_t ok; int i, n = 0, len;
  for (i = 0; i < T; i++) { text[n++] = (char) ('a' + i % 26); text[n++] = '='; text[n++] = (char) ('A' + i % 26); if (i + 1 < T) text[n++] = ','; }
  if (TRAIL) { text[n++] = ','; text[n++] = ' '; }        /* a separator and trailing white space after the last pair */
  text[n] = 0; len = n;
  _dbus_string_init_const_len (&str, text, len);
  err.name = 0; err.message = 0;
  ok = tokenize_rule (&str, tokens, &err);
  if (ok)
    {
      for (i = 0; i < T; i++)
        VF_ASSERT (i < MAX_RULE_TOKENS && tokens[i].key && tokens[i].value && tokens[i].key[0] == 'a' + i % 26 && tokens[i].key[1] == 0 && tokens[i].value[0] == 'A' + i % 26 && tokens[i].value[1] == 0,
                   "an accepted rule text yields every key/value pair it contains, in order (none is silently dropped)");
      VF_ASSERT (T >= MAX_RULE_TOKENS || (tokens[T].key == 0 && tokens[T].value == 0), "and nothing else");
      VF_WITNESS_OPT ("rule text tokenised completely");
    }
  else
    {
      VF_ASSERT (vf_err_name && strcmp (vf_err_name, DBUS_ERROR_MATCH_RULE_INVALID) == 0, "a rule text that cannot be represented is refused as MatchRuleInvalid");
      VF_ASSERT (T > 16, "rule texts of up to 16 pairs are always accepted (the limit the unchanged tree documents: 'up to 10 args')");
      VF_ASSERT (tokens[0].key == 0 && tokens[0].value == 0, "a refused text leaves no tokens behind");
      VF_WITNESS_OPT ("too many pairs refused");
    }
  VF_WITNESS ("end of harness reached");
}
