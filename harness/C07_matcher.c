/* C07.a — match_rule_matches (bus/signals.c) on one rule whose flags and every
 * attribute are symbolic, against a symbolic message (header record + up to
 * NARG body arguments), compared with the specification's match semantics, with
 * CBMC's memory-safety checks on (rule text and message content are hostile). */
#include <config.h>
#include <dbus/dbus-internals.h>
#include <stdlib.h>
#include <string.h>
#include "vf.h"
#include "msg_model.h"
struct DBusConnection { int id; };
#include "/repo/bus/signals.c"
#include "ref_match.h"
#include "ref_names.h"

#ifndef NARG
#define NARG 1
#endif
#define EL 2   /* rule arg value length bound */
#define AL 3   /* message arg length bound */
#define PL 4   /* path length bound */

static struct DBusConnection c_sender, c_addr, c_owner;
static struct ref_mrule ref;
/* ---- registry questions: answered by the same symbols the reference reads ---- */
BusRegistry *bus_connection_get_registry (DBusConnection *c) { return (BusRegistry *) c; }
struct vf_svc { int which; };
static struct vf_svc svc_sender = { 1 }, svc_dest = { 2 };
BusService *bus_registry_lookup (BusRegistry *r, const DBusString *s)
{
  const char *n = _dbus_string_get_const_data (s);
  if (n == ref.sender) return (BusService *) &svc_sender;
  if (n == ref.dest) return (BusService *) &svc_dest;
  VF_ASSERT (0, "registry asked about an unexpected name");
  return 0;
}
DBusConnection *bus_service_get_primary_owners_connection (BusService *s)
{
  struct vf_svc *v = (struct vf_svc *) s;
  if (v->which == 1) return ref.sender_is_owner ? &c_sender : &c_owner;
  return ref.recipient_is_owner ? &c_addr : &c_owner;
}
/* ---- body iterator: cursor over NARG symbolic arguments ---- */
static struct ref_marg margs[3]; static int n_margs; static int cursor;
dbus_bool_t dbus_message_iter_init (DBusMessage *m, DBusMessageIter *i) { cursor = 0; return n_margs > 0; }
int dbus_message_iter_get_arg_type (DBusMessageIter *i) { return cursor < n_margs ? margs[cursor].type : DBUS_TYPE_INVALID; }
void dbus_message_iter_get_basic (DBusMessageIter *i, void *v)
{ VF_ASSERT (cursor < n_margs && (margs[cursor].type == 's' || margs[cursor].type == 'o'), "get_basic on a string-like argument only"); *(const char **) v = margs[cursor].val; }
dbus_bool_t dbus_message_iter_next (DBusMessageIter *i) { cursor++; return cursor < n_margs; }

static char *heap_str (int maxlen, int *len_out, int nonempty_ok)
{
  int n = vf_range (0, maxlen), i;
  char *p = malloc (maxlen + 1);
  VF_ASSUME (p != 0);
  for (i = 0; i < maxlen; i++) { p[i] = (char) vf_u8 (); if (i < n) VF_ASSUME (p[i] != 0); }
  p[n] = 0;
  if (len_out) *len_out = n;
  return p;
}

void harness (void)
{
  static BusMatchRule rule; static struct DBusMessage msg; static char ms[6][VF_STRMAX + 1];
  static char *rargs[3]; static unsigned int rlens[3];
  int have_sender = vf_bool (), have_addr = vf_bool (), i, want, plen;
  dbus_bool_t got;
  unsigned flags = (unsigned) vf_range (0, 511);

  vf_msg_symbolic (&msg, ms);
  msg.path = vf_bool () ? 0 : heap_str (PL, &plen, 1);
  if (msg.path) VF_ASSUME (ref_valid_path ((const unsigned char *) msg.path, plen));   /* accepted messages carry valid object paths (C01) */

  VF_ASSUME (!((flags & BUS_MATCH_PATH) && (flags & BUS_MATCH_PATH_NAMESPACE)));        /* parser: not both */
  rule.refcount = 1; rule.matches_go_to = &c_owner; rule.flags = flags;
  rule.message_type = (flags & BUS_MATCH_MESSAGE_TYPE) ? vf_range (1, 4) : 0;
  rule.interface = (flags & BUS_MATCH_INTERFACE) ? heap_str (3, 0, 1) : 0;
  rule.member = (flags & BUS_MATCH_MEMBER) ? heap_str (3, 0, 1) : 0;
  rule.sender = (flags & BUS_MATCH_SENDER) ? (vf_bool () ? (char *) DBUS_SERVICE_DBUS : heap_str (3, 0, 1)) : 0;
  rule.destination = (flags & BUS_MATCH_DESTINATION) ? heap_str (3, 0, 1) : 0;
  if (flags & (BUS_MATCH_PATH | BUS_MATCH_PATH_NAMESPACE))
    {
      int l; rule.path = heap_str (PL, &l, 1);
      VF_ASSUME (ref_valid_path ((const unsigned char *) rule.path, l));                 /* bus_match_rule_parse validates path values */
    }
  ref.flags = flags; ref.mtype = rule.message_type; ref.iface = rule.interface; ref.member = rule.member;
  ref.sender = rule.sender; ref.dest = rule.destination; ref.path = rule.path;
  ref.sender_is_owner = vf_bool (); ref.recipient_is_owner = vf_bool ();
  ref.nargs = 0;
  if (flags & BUS_MATCH_ARGS)
    {
      rule.args = rargs; rule.arg_lens = rlens; rule.args_len = NARG; ref.nargs = NARG;
      for (i = 0; i < NARG; i++)
        {
          int kind = vf_range (0, 2), el = 0;
          if (i < NARG - 1 && vf_bool ()) { rargs[i] = 0; rlens[i] = 0; ref.arg[i] = 0; continue; }   /* argN not constrained */
          if (kind == 2) VF_ASSUME (i == 0);                                              /* only arg0namespace exists */
          rargs[i] = heap_str (EL, &el, 1);
          rlens[i] = (unsigned) el | (kind == 1 ? BUS_MATCH_ARG_IS_PATH : 0) | (kind == 2 ? BUS_MATCH_ARG_NAMESPACE : 0);
          ref.arg[i] = rargs[i]; ref.arg_len[i] = el; ref.arg_kind[i] = kind;
        }
    }
  n_margs = vf_range (0, NARG);
  for (i = 0; i < NARG; i++)
    {
      int t = vf_range (0, 2), al = 0;
      margs[i].type = t == 0 ? 's' : t == 1 ? 'o' : 'u';
      margs[i].val = heap_str (AL, &al, 1); margs[i].len = al;
    }

  got = match_rule_matches (&rule, have_sender ? &c_sender : 0, have_addr ? &c_addr : 0, &msg, 0);
  want = ref_rule_matches (&ref, have_sender, have_addr, msg.type, msg.iface, msg.member, msg.path, msg.dest, margs, n_margs);
  VF_SHOW ("flags=%u type r=%d m=%d iface r=%s m=%s member r=%s m=%s sender r=%s have=%d own=%d dest r=%s m=%s have=%d own=%d path r=%s m=%s got=%d want=%d\n",
           flags, rule.message_type, msg.type, rule.interface ? rule.interface : "-", msg.iface ? msg.iface : "-", rule.member ? rule.member : "-",
           msg.member ? msg.member : "-", rule.sender ? rule.sender : "-", have_sender, ref.sender_is_owner, rule.destination ? rule.destination : "-",
           msg.dest ? msg.dest : "-", have_addr, ref.recipient_is_owner, rule.path ? rule.path : "-", msg.path ? msg.path : "-", got, want);
  for (i = 0; i < NARG; i++)
    VF_SHOW ("arg%d rule=%s len=%d kind=%d  msg type=%c val=%s len=%d (n_margs=%d)\n", i, ref.arg[i] ? ref.arg[i] : "(null)", ref.arg_len[i], ref.arg_kind[i],
             margs[i].type, margs[i].val, margs[i].len, n_margs);
  VF_ASSERT ((got != 0) == (want != 0), "rule matches exactly when the specification says so");
  if (got && (flags & BUS_MATCH_ARGS)) VF_WITNESS ("an argument rule matches");
  if (got && (flags & BUS_MATCH_PATH_NAMESPACE)) VF_WITNESS ("a path_namespace rule matches");
  if (!got) VF_WITNESS ("a rule does not match");
  if (got && msg.dest) VF_WITNESS ("an eavesdropping rule matches a unicast message");
}
