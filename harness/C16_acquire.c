/* C16.e — "the same verdict whether reached through ... name-request handling in
 * the bus": bus_registry_acquire_service / _release_service accept a name exactly
 * when it is a valid bus name under the specification that is neither a unique
 * name nor org.freedesktop.DBus.
 * MODE 0: every name of <= NS symbolic bytes.  MODE 1: well-formed names of
 * symbolic length 253..257 (the 255-byte limit). */
#include "bus_env.h"
#include "/repo/bus/services.c"
#include "services_env.h"
#include "ref_names.h"
#ifndef MODE
#define MODE 0
#endif
#define NS 5
#ifndef LEN
#define LEN 255
#endif
#define NL 258
void harness (void)
{
  /* (a final mandatory witness is at the end) */
  static BusRegistry reg; static struct DBusHashTable ht;
  static char nm[NL + 1];
  DBusString name; DBusError err; dbus_uint32_t res = 99; dbus_bool_t ok; int len, i, want, release = vf_bool ();
  reg.refcount = 1; reg.context = (BusContext *) &reg; reg.service_hash = &ht; reg.service_pool = &vf_sp; reg.owner_pool = &vf_op;
  cfg_limit = 1000; policy_allows_own = 1;
#if MODE == 1
  /* the own-policy denies: a name that passes validation is then refused with AccessDenied before anything is
   * copied or looked up, so the route's validity verdict shows in the error name at no cost */
  policy_allows_own = 0; release = 0;
#endif
#if MODE == 0
  len = vf_range (0, NS);
  for (i = 0; i < NS; i++) { nm[i] = (char) vf_u8 (); if (i < len) VF_ASSUME (nm[i] != 0); }
  nm[len] = 0;
#else
  len = LEN;          /* concrete per job: 254, 255, 256 (R4) */
  nm[0] = 'a'; nm[1] = '.';
  for (i = 2; i < NL; i++) nm[i] = 'b';
  nm[len] = 0;
#endif
  _dbus_string_init_const_len (&name, nm, len);
  dbus_error_init (&err);
  if (release) ok = bus_registry_release_service (&reg, vf_conn[0], &name, &res, (BusTransaction *) &reg, &err);
  else ok = bus_registry_acquire_service (&reg, vf_conn[0], &name, 0, &res, (BusTransaction *) &reg, &err);
  want = ref_valid_bus_name_spec ((const unsigned char *) nm, len) && nm[0] != ':';
#if MODE == 1
  if (want)
    {
      VF_ASSERT (!ok && err.name && vf_err_is (err.name, DBUS_ERROR_ACCESS_DENIED), "a valid name of up to 255 bytes passes validation in the name-request route (and is then refused by the deny policy)");
      VF_WITNESS_OPT ("valid long name reached the policy check");
    }
  else
#else
  if (want)
    {
      VF_ASSERT (ok && !err.name, "a valid well-known name is accepted by RequestName / ReleaseName");
      VF_ASSERT (release ? res == 2 /* NON_EXISTENT */ : res == 1 /* PRIMARY_OWNER */, "and handled");
      VF_WITNESS ("name accepted");
    }
  else
#endif
    {
      VF_ASSERT (!ok && err.name && vf_err_is (err.name, DBUS_ERROR_INVALID_ARGS), "an invalid, unique or over-long name is refused with InvalidArgs");
      VF_ASSERT (vf_nev == 0 && vf_nhooks == 0 && ht.used[0] == 0, "and changes nothing");
#if MODE == 1
      VF_WITNESS_OPT ("name refused");
#else
      VF_WITNESS ("name refused");
#endif
    }
  VF_WITNESS ("end of harness reached");
}
