/* C16.c — _dbus_validate_signature_with_reason vs. the type-system grammar on
 * every byte string of length <= N (full alphabet).  DBusList as stack is the
 * R6 LIFO model (env/list_lifo.c). */
#include <config.h>
#include <dbus/dbus-internals.h>
#include <dbus/dbus-string.h>
#include <dbus/dbus-marshal-validate.h>
#include "vf.h"
#include "ref_names.h"
#ifndef N
#define N 6
#endif
#ifndef PRE
#define PRE 1
#endif
void harness (void)
{
  unsigned char buf[PRE + N + 2];
  DBusString s;
  int start = vf_range (0, PRE);
  int len = vf_range (0, N);
  DBusValidity v;
  int spec;
  vf_bytes (buf, PRE + N + 1);
  buf[PRE + N + 1] = 0;
  _dbus_string_init_const_len (&s, (const char *) buf, PRE + N + 1);
  v = _dbus_validate_signature_with_reason (&s, start, len);
  spec = ref_valid_signature (buf + start, len);
  VF_ASSERT (v != DBUS_VALIDITY_UNKNOWN_OOM_ERROR, "no OOM verdict when allocation succeeds");
  VF_ASSERT ((v == DBUS_VALID) == (spec != 0), "signature verdict equals the type-system grammar");
  if (v == DBUS_VALID && len == N) VF_WITNESS ("accepts some maximal-length signature");
  if (v != DBUS_VALID && len == N) VF_WITNESS ("rejects some maximal-length string");
  if (v == DBUS_VALID && len >= 5 && buf[start + 1] == '{') VF_WITNESS ("accepts a dict signature");
}
