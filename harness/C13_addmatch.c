/* C13 (match rules per connection) — bus_driver_handle_add_match (real bus/driver.c,
 * callees stubbed): with symbolic limit L in [1, INT_MAX] and symbolic current
 * rule count n <= L: n >= L  =>  LimitsExceeded, nothing added, no reply;
 * n < L => the rule is added exactly once (n+1 <= L) unless parsing / privilege /
 * memory fails, in which case nothing is added. */
#include <config.h>
#undef DBUS_ENABLE_VERBOSE_MODE
#include <dbus/dbus-internals.h>
#include <stdlib.h>
#include <string.h>
#include <stdarg.h>
#include "vf.h"
#include "msg_model.h"
struct DBusConnection { int id; int n_rules; };
#include "/repo/bus/driver.c"

static int cfg_limit, parse_ok, eaves, privileged, add_ok, ack_ok, g_added, g_removed, g_acks;
static const char *vf_err_name;
static struct DBusConnection conn;
static int rule_tok, mm_tok, ctx_tok;
BusContext *bus_transaction_get_context (BusTransaction *t) { return (BusContext *) &ctx_tok; }
int bus_context_get_max_match_rules_per_connection (BusContext *c) { return cfg_limit; }
int bus_connection_get_n_match_rules (DBusConnection *c) { return c->n_rules; }
dbus_bool_t bus_connection_is_active (DBusConnection *c) { return 1; }
const char *bus_connection_get_name (DBusConnection *c) { return ":1.0"; }
void bus_context_log (BusContext *c, DBusSystemLogSeverity s, const char *m, ...) { }
const char *bus_context_get_type (BusContext *c) { return "session"; }
void dbus_set_error (DBusError *e, const char *name, const char *fmt, ...) { vf_err_name = name; if (e) { e->name = name; e->message = "m"; } }
void dbus_set_error_const (DBusError *e, const char *name, const char *m) { vf_err_name = name; if (e) { e->name = name; e->message = m; } }
void dbus_error_init (DBusError *e) { e->name = 0; e->message = 0; }
dbus_bool_t dbus_error_is_set (const DBusError *e) { return e->name != 0; }
void dbus_move_error (DBusError *s, DBusError *d) { if (d) *d = *s; s->name = 0; s->message = 0; }
const char bus_no_memory_message[] = "oom";
dbus_bool_t dbus_message_get_args (DBusMessage *m, DBusError *e, int first, ...)
{ va_list ap; const char **out; va_start (ap, first); out = va_arg (ap, const char **); *out = "type='signal'"; va_end (ap); return 1; }
BusMatchRule *bus_match_rule_parse (DBusConnection *c, const DBusString *s, DBusError *e)
{ if (!parse_ok) { dbus_set_error_const (e, DBUS_ERROR_MATCH_RULE_INVALID, "bad"); return 0; } return (BusMatchRule *) &rule_tok; }
dbus_bool_t bus_match_rule_get_client_is_eavesdropping (BusMatchRule *r) { return eaves; }
dbus_bool_t bus_apparmor_allows_eavesdropping (DBusConnection *c, const char *t, DBusError *e) { return 1; }
BusMatchmaker *bus_connection_get_matchmaker (DBusConnection *c) { return (BusMatchmaker *) &mm_tok; }
dbus_bool_t bus_matchmaker_add_rule (BusMatchmaker *m, BusMatchRule *r) { if (!add_ok) return 0; g_added++; conn.n_rules++; return 1; }
void bus_matchmaker_remove_rule (BusMatchmaker *m, BusMatchRule *r) { g_removed++; conn.n_rules--; }
static int rule_present, g_removed_by_value, g_ack_before_remove;
dbus_bool_t bus_matchmaker_remove_rule_by_value (BusMatchmaker *m, BusMatchRule *r, DBusError *e)
{
  if (!rule_present) { dbus_set_error_const (e, DBUS_ERROR_MATCH_RULE_NOT_FOUND, "nf"); return 0; }
  g_ack_before_remove = g_acks; g_removed_by_value++; conn.n_rules--; return 1;
}
dbus_bool_t bus_matchmaker_has_rule_by_value (BusMatchmaker *m, BusMatchRule *r) { return rule_present; }
void bus_match_rule_unref (BusMatchRule *r) { }
/* privilege check and ack reply are statics of driver.c reached through their real bodies; their callees: */
dbus_bool_t dbus_connection_get_unix_user (DBusConnection *c, unsigned long *uid) { *uid = privileged ? 0 : 1000; return 1; }
dbus_bool_t _dbus_unix_user_is_process_owner (dbus_uid_t uid) { return uid == 0; }
dbus_bool_t dbus_connection_get_windows_user (DBusConnection *c, char **sid) { return 0; }
BusContext *bus_connection_get_context (DBusConnection *c) { return (BusContext *) &ctx_tok; }
DBusMessage *dbus_message_new_method_return (DBusMessage *m) { static struct DBusMessage r; if (!ack_ok) return 0; r.refcount = 1; r.type = 2; r.reply_serial = m->serial; return &r; }
static int send_ok = 1;
dbus_bool_t bus_transaction_send_from_driver (BusTransaction *t, DBusConnection *c, DBusMessage *m) { if (!send_ok) return 0; g_acks++; return 1; }
dbus_bool_t bus_containers_connection_is_contained (DBusConnection *c, const char **path, const char **type, const char **name) { return FALSE; }
const char *bus_connection_get_loginfo (DBusConnection *c) { return "x"; }
void bus_context_log_and_set_error (BusContext *context, DBusSystemLogSeverity severity, DBusError *error, const char *name, const char *msg, ...)
{ vf_err_name = name; if (error) { error->name = name; error->message = "m"; } }
void bus_connection_request_headers (DBusConnection *c, BusExtraHeaders h) { }

#ifndef OP
#define OP 0
#endif
#if OP == 2
/* C10: per-request argument checking in the driver's table walks — for every interface the driver exports and every property / method name a client can
 * put into Properties.Get / Set / GetAll or a method call, the table lookups terminate on their sentinels without dereferencing anything else
 * (CBMC pointer checks on): interfaces without properties have a NULL property table. */
void harness (void)
{
  static char nm[4]; DBusError err; int k, n_if = 0;
  nm[0] = (char) vf_u8 (); nm[1] = (char) vf_u8 (); nm[2] = (char) vf_u8 (); nm[3] = 0;
  for (k = 0; k < 12; k++)
    if (k < (int) _DBUS_N_ELEMENTS (interface_handlers) && interface_handlers[k].name != NULL)
      {
        const PropertyHandler *ph; const MessageHandler *mh;
        err.name = 0; err.message = 0; n_if++;
        ph = interface_handler_find_property (&interface_handlers[k], nm, &err);
        VF_ASSERT ((ph != NULL) != (err.name != NULL), "a property lookup either finds the property or sets UnknownProperty");
        if (ph != NULL) VF_ASSERT (strcmp (ph->name, nm) == 0, "the property found is the one asked for");
        for (mh = interface_handlers[k].message_handlers; mh != NULL && mh->name != NULL; mh++) VF_ASSERT (mh->handler != NULL, "every listed method has a handler");
      }
  VF_ASSERT (n_if >= 5, "the driver's interface table was walked");
  VF_WITNESS ("end of harness reached");
}
#elif OP == 1
/* C14 (RemoveMatch): the only effect that a cancelled transaction cannot undo — removing the rule — happens
 * after everything that can fail for lack of memory; so a RemoveMatch that reports an error has removed nothing. */
void harness (void)
{
  static struct DBusMessage msg; static char ms[6][VF_STRMAX + 1]; DBusError err; dbus_bool_t ok; int n;
  vf_msg_symbolic (&msg, ms);
  n = vf_range (1, 1000); conn.n_rules = n;
  parse_ok = vf_bool (); ack_ok = vf_bool (); send_ok = vf_bool (); rule_present = vf_bool ();
  err.name = 0; err.message = 0;
  ok = bus_driver_handle_remove_match (&conn, (BusTransaction *) &ctx_tok, &msg, &err);
  if (!ok)
    {
      VF_ASSERT (err.name != 0, "failure carries an error");
      VF_ASSERT (g_removed_by_value == 0 && conn.n_rules == n, "a RemoveMatch that fails (NoMemory, invalid rule, rule not found) has removed nothing");
      /* C07: "RemoveMatch removes one rule equal to its argument or FAILS with MatchRuleNotFound".  bus_dispatch answers a handler error other than
       * NoMemory with an error reply in the SAME transaction (only NoMemory cancels it), so a success acknowledgement staged before such an
       * error reaches the caller first and the call appears to succeed (F13). */
      if (strcmp (err.name, DBUS_ERROR_NO_MEMORY) != 0) VF_ASSERT (g_acks == 0, "a RemoveMatch that fails with a real error (rule not found, invalid rule) has not staged a success reply");
      if (strcmp (err.name, DBUS_ERROR_MATCH_RULE_NOT_FOUND) == 0) VF_WITNESS_OPT ("RemoveMatch of an absent rule");
      if (!rule_present && parse_ok) VF_ASSERT (strcmp (err.name, DBUS_ERROR_MATCH_RULE_NOT_FOUND) == 0 || strcmp (err.name, DBUS_ERROR_NO_MEMORY) == 0, "an absent rule is reported as MatchRuleNotFound");
      if (strcmp (err.name, DBUS_ERROR_NO_MEMORY) == 0) VF_WITNESS ("RemoveMatch ran out of memory");
    }
  else
    {
      VF_ASSERT (g_removed_by_value == 1 && conn.n_rules == n - 1 && rule_present, "a successful RemoveMatch removes exactly one rule");
      VF_ASSERT (msg.no_reply || g_ack_before_remove == 1, "the acknowledgement is staged before the (non-undoable) removal");
      VF_WITNESS ("rule removed");
    }
}
#else
void harness (void)
{
  static struct DBusMessage msg; static char ms[6][VF_STRMAX + 1]; DBusError err; dbus_bool_t ok; int n;
  vf_msg_symbolic (&msg, ms);
  cfg_limit = vf_range (1, 0x7fffffff);
  n = vf_range (0, 0x7fffffff); VF_ASSUME (n <= cfg_limit);          /* inductive hypothesis */
  conn.n_rules = n;
  parse_ok = vf_bool (); eaves = vf_bool (); privileged = vf_bool (); add_ok = vf_bool (); ack_ok = vf_bool ();
  err.name = 0; err.message = 0;
  ok = bus_driver_handle_add_match (&conn, (BusTransaction *) &ctx_tok, &msg, &err);
  VF_ASSERT (conn.n_rules <= cfg_limit, "the per-connection match-rule limit is never exceeded");
  if (n >= cfg_limit)
    {
      VF_ASSERT (!ok && err.name && strcmp (err.name, DBUS_ERROR_LIMITS_EXCEEDED) == 0, "at the limit => LimitsExceeded");
      VF_ASSERT (g_added == 0 && g_acks == 0 && conn.n_rules == n, "refused AddMatch changes nothing and sends no reply");
      VF_WITNESS ("limit reached");
    }
  else if (ok)
    {
      VF_ASSERT (g_added == 1 && g_removed == 0 && conn.n_rules == n + 1 && g_acks == (msg.no_reply ? 0 : 1) && !err.name, "a permitted AddMatch adds exactly one rule and acknowledges once (unless the call asked for no reply)");
      VF_ASSERT (parse_ok && (!eaves || privileged), "only well-formed rules, and eavesdropping rules only from privileged callers");
      VF_WITNESS ("rule added");
    }
  else
    {
      VF_ASSERT (conn.n_rules == n && err.name != 0 && g_acks == 0, "a failed AddMatch leaves the rule count unchanged, reports an error and sends no reply");
      VF_WITNESS ("AddMatch failed below the limit");
    }
}
#endif
