/* C07.d — RemoveMatch by value: bus_matchmaker_remove_rule_by_value on a pool of
 * L rules (separate objects, symbolic contents) removes exactly one rule equal
 * to its argument — the most recently added such rule — or fails with
 * MatchRuleNotFound leaving the pool unchanged.  "Equal" is the reference
 * equality of two parsed rules (same owner, same keys, same values, and for
 * argN the same index, kind (argN / argNpath / arg0namespace) and value).
 * Also: bus_matchmaker_disconnected removes exactly the rules owned by the
 * connection (MODE=1). */
#include <config.h>
#undef DBUS_ENABLE_VERBOSE_MODE     /* logging is environment (R2): match_rule_to_string is only called for _dbus_verbose */
#include <dbus/dbus-internals.h>
#include <stdlib.h>
#include <string.h>
#include "vf.h"
#include "msg_model.h"
struct DBusConnection { int id; int n_rules_removed; };
static struct DBusConnection c_a = { 0, 0 }, c_b = { 1, 0 };
struct DBusHashTable { int dummy; };
struct vf_iter { int done; };
#include "/repo/bus/signals.c"

#ifndef L
#define L 2
#endif
#ifndef MODE
#define MODE 0
#endif
#define SL 2

static const char *vf_err_name;
void dbus_set_error (DBusError *e, const char *name, const char *fmt, ...) { vf_err_name = name; if (e) { e->name = name; e->message = "m"; } }
void bus_connection_remove_match_rule (DBusConnection *c, BusMatchRule *r) { c->n_rules_removed++; }
static int add_reg_ok = 1, n_registered;
dbus_bool_t bus_connection_add_match_rule (DBusConnection *c, BusMatchRule *r) { if (!add_reg_ok) return 0; n_registered++; return 1; }
dbus_bool_t bus_connection_is_active (DBusConnection *c) { return 1; }
/* unique names of the two connections: opaque strings here; the first is a strict prefix of possible rule values so that a prefix comparison and an exact one differ */
const char *bus_connection_get_name (DBusConnection *c) { return c->id == 0 ? ":" : ":b"; }
void *_dbus_hash_table_lookup_string (DBusHashTable *h, const char *k) { return 0; }
dbus_bool_t _dbus_hash_table_remove_string (DBusHashTable *h, const char *k) { return 0; }
void _dbus_hash_iter_init (DBusHashTable *t, DBusHashIter *i) { }
dbus_bool_t _dbus_hash_iter_next (DBusHashIter *i) { return 0; }     /* no per-interface pools in this shape */
void *_dbus_hash_iter_get_value (DBusHashIter *i) { return 0; }
void _dbus_hash_iter_remove_entry (DBusHashIter *i) { }

struct rrule { int owner; unsigned flags; int mtype; char member[SL + 1]; char sender[SL + 1]; int has_arg; int kind; int alen; char aval[SL + 1]; };
static int r_streq (const char *a, const char *b) { int i; for (i = 0; i <= SL; i++) { if (a[i] != b[i]) return 0; if (!a[i]) return 1; } return 1; }
static int ref_rule_equal (const struct rrule *a, const struct rrule *b)
{
  int i;
  if (a->owner != b->owner || a->flags != b->flags) return 0;
  if ((a->flags & BUS_MATCH_MESSAGE_TYPE) && a->mtype != b->mtype) return 0;
  if ((a->flags & BUS_MATCH_MEMBER) && !r_streq (a->member, b->member)) return 0;
  if ((a->flags & BUS_MATCH_SENDER) && !r_streq (a->sender, b->sender)) return 0;
  if (a->flags & BUS_MATCH_ARGS)
    {
      if (a->kind != b->kind || a->alen != b->alen) return 0;
      for (i = 0; i < a->alen; i++) if (a->aval[i] != b->aval[i]) return 0;
    }
  return 1;
}
static BusMatchRule *make_rule (struct rrule *q, int mtype)
{
  BusMatchRule *r = calloc (1, sizeof (BusMatchRule));
  int i;
  VF_ASSUME (r != 0);
  q->owner = vf_range (0, 1);
  q->flags = 0;
  if (mtype) q->flags |= BUS_MATCH_MESSAGE_TYPE;
  if (vf_bool ()) q->flags |= BUS_MATCH_MEMBER;
  if (vf_bool ()) q->flags |= BUS_MATCH_SENDER;
  if (vf_bool ()) q->flags |= BUS_MATCH_ARGS;
  if (vf_bool ()) q->flags |= BUS_MATCH_CLIENT_IS_EAVESDROPPING;
  q->mtype = mtype;
  r->refcount = 2; r->matches_go_to = q->owner ? &c_b : &c_a; r->flags = q->flags; r->message_type = mtype;
  for (i = 0; i < SL; i++) { q->member[i] = (char) vf_u8 (); q->sender[i] = (char) vf_u8 (); q->aval[i] = (char) vf_u8 (); }
  q->member[SL] = q->sender[SL] = q->aval[SL] = 0;
  if (q->flags & BUS_MATCH_MEMBER) r->member = q->member;
  if (q->flags & BUS_MATCH_SENDER) { r->sender = q->sender; VF_ASSUME (q->sender[0] != 0); }
  if (q->flags & BUS_MATCH_ARGS)
    {
      char **args = calloc (2, sizeof (char *)); unsigned int *lens = calloc (2, sizeof (unsigned int));
      VF_ASSUME (args && lens);
      q->kind = vf_range (0, 2); q->alen = vf_range (0, SL);
      for (i = 0; i < q->alen; i++) VF_ASSUME (q->aval[i] != 0);
      q->aval[q->alen] = 0;
      args[0] = q->aval; lens[0] = (unsigned) q->alen | (q->kind == 1 ? BUS_MATCH_ARG_IS_PATH : 0) | (q->kind == 2 ? BUS_MATCH_ARG_NAMESPACE : 0);
      r->args = args; r->arg_lens = lens; r->args_len = 1;
    }
  return r;
}

void harness (void)
{
  static BusMatchmaker mm; static struct DBusHashTable ht;
  struct rrule q[4], qv; BusMatchRule *r[4], *v; DBusList *ln[4];
  int i, mtype = vf_range (0, 4), last = -1, k;
  DBusList **pool, *l; DBusError err; dbus_bool_t ok;

  for (i = 0; i < DBUS_NUM_MESSAGE_TYPES; i++) mm.rules_by_type[i].rules_by_iface = &ht;
  mm.refcount = 1;
  pool = &mm.rules_by_type[mtype].rules_without_iface;
  for (i = 0; i < L; i++)
    {
      r[i] = make_rule (&q[i], mtype);
      ln[i] = calloc (1, sizeof (DBusList)); VF_ASSUME (ln[i] != 0);
      ln[i]->data = r[i];
    }
  for (i = 0; i < L; i++) { ln[i]->next = ln[(i + 1) % L]; ln[i]->prev = ln[(i + L - 1) % L]; }
  *pool = L ? ln[0] : 0;
  err.name = 0; err.message = 0;

#if MODE == 0
  v = make_rule (&qv, mtype);
  ok = bus_matchmaker_remove_rule_by_value (&mm, v, &err);
  for (i = 0; i < L; i++) if (ref_rule_equal (&q[i], &qv)) last = i;
  if (last < 0)
    {
      VF_ASSERT (!ok && vf_err_name && strcmp (vf_err_name, DBUS_ERROR_MATCH_RULE_NOT_FOUND) == 0, "no equal rule => MatchRuleNotFound");
      VF_WITNESS ("rule not found");
    }
  else
    {
      VF_ASSERT (ok && err.name == 0, "an equal rule exists => RemoveMatch succeeds");
      VF_ASSERT (r[last]->refcount == 1, "the most recently added equal rule is the one released");
      VF_ASSERT ((q[last].owner ? c_b : c_a).n_rules_removed == 1 && (q[last].owner ? c_a : c_b).n_rules_removed == 0, "exactly one rule is unregistered from its owner");
#if L > 0
      VF_WITNESS ("an equal rule is removed");
#endif
    }
  /* remaining pool = original order minus the removed one */
  l = _dbus_list_get_first_link (pool); k = 0;
  for (i = 0; i < L; i++)
    {
      if (i == last) continue;
      VF_ASSERT (l != 0 && l->data == r[i], "all other rules stay, in order");
      if (l) l = _dbus_list_get_next_link (pool, l);
      k++;
    }
  VF_ASSERT (l == 0, "nothing else left in the pool");
#elif MODE == 2
  /* AddMatch stores one more rule, even if an equal rule of the same connection is already there (each AddMatch needs its own RemoveMatch) */
  v = make_rule (&qv, mtype); v->refcount = 1; add_reg_ok = vf_bool ();
  ok = bus_matchmaker_add_rule (&mm, v);
  l = _dbus_list_get_first_link (pool);
  for (i = 0; i < L; i++) { VF_ASSERT (l != 0 && l->data == r[i] && r[i]->refcount == 2, "existing rules stay, in order"); if (l) l = _dbus_list_get_next_link (pool, l); }
  if (ok)
    {
      VF_ASSERT (l != 0 && l->data == v && _dbus_list_get_next_link (pool, l) == 0, "the new rule is appended as one more entry, whether or not an equal rule exists");
      VF_ASSERT (v->refcount == 2 && n_registered == 1, "the matchmaker holds its own reference and the rule is counted against its connection");
      for (i = 0; i < L; i++) if (ref_rule_equal (&q[i], &qv)) VF_WITNESS_OPT ("a duplicate rule was added");
      VF_WITNESS_OPT ("rule added");
    }
  else
    {
      VF_ASSERT (l == 0 && v->refcount == 1 && n_registered == 0, "a failed AddMatch leaves the pool unchanged");
    }
#else
  {
    int who = vf_range (0, 1);
    struct DBusConnection *gone = who ? &c_b : &c_a;
    bus_matchmaker_disconnected (&mm, gone);
    l = _dbus_list_get_first_link (pool);
    for (i = 0; i < L; i++)
      {
        if (q[i].owner == who) { VF_ASSERT (r[i]->refcount == 1, "a disconnected connection's rule is dropped"); continue; }
        /* rules of OTHER connections that name the vanished connection's unique name as sender can never match again and are dropped too — exactly those */
        if ((q[i].flags & BUS_MATCH_SENDER) && q[i].sender[0] == ':' && r_streq (q[i].sender, bus_connection_get_name (gone)))
          { VF_ASSERT (r[i]->refcount == 1, "a rule naming the vanished unique name as sender is dropped"); VF_WITNESS_OPT ("rule about the vanished name dropped"); continue; }
        VF_ASSERT (l != 0 && l->data == r[i] && r[i]->refcount == 2, "rules of other connections stay, in order");
        if (l) l = _dbus_list_get_next_link (pool, l);
      }
    VF_ASSERT (l == 0, "nothing else left in the pool");
    VF_WITNESS ("disconnect processed");
  }
#endif
  VF_WITNESS ("end of harness reached");
}
