/* C15 (receive path) — the real _dbus_read_socket_with_unix_fds
 * (dbus/dbus-sysdeps-unix.c) against an arbitrary kernel answer.  recvmsg is a
 * stub that fills the control buffer it was given with 0..2 control messages of
 * symbolic level/type/length (within the documented contract: each header and
 * its payload lie inside msg_controllen, at most one SCM_RIGHTS message, its
 * payload a whole number of ints, each a freshly opened descriptor) and a
 * symbolic MSG_CTRUNC flag.  A ghost descriptor table records open / closed /
 * close-on-exec.  Checked: every descriptor the kernel delivered is either
 * handed to the caller (in order, within the caller's capacity, close-on-exec
 * set) or closed exactly once; nothing else is closed; on truncation everything
 * is closed, the call fails and reports zero descriptors; the byte buffer is
 * lengthened by exactly the bytes read.   NFD = caller's capacity (shape). */
#define _GNU_SOURCE
#include <config.h>
#include <dbus/dbus-internals.h>
#include <dbus/dbus-string.h>
#define DBUS_CAN_USE_DBUS_STRING_PRIVATE 1
#include <dbus/dbus-string-private.h>
#include <dbus/dbus-sysdeps.h>
#include <dbus/dbus-sysdeps-unix.h>
#include <sys/socket.h>
#include <sys/uio.h>
#include <errno.h>
#include <string.h>
#include "vf.h"
#ifndef NFD
#define NFD 2
#endif
#define FD_BASE 100
#define MAXDELIV 6
static int fd_open[MAXDELIV], fd_closed[MAXDELIV], fd_cloexec[MAXDELIV], n_delivered, bad_close, ctrunc, bytes_ret;
int close (int fd)
{ if (fd >= FD_BASE && fd < FD_BASE + n_delivered) { fd_closed[fd - FD_BASE]++; fd_open[fd - FD_BASE] = 0; } else bad_close++; return 0; }
void _dbus_fd_set_close_on_exec (int fd) { if (fd >= FD_BASE && fd < FD_BASE + n_delivered) fd_cloexec[fd - FD_BASE]++; else bad_close++; }
struct cmsghdr *__cmsg_nxthdr (struct msghdr *m, struct cmsghdr *c)
{
  /* glibc's definition */
  if ((size_t) c->cmsg_len < sizeof (struct cmsghdr)) return 0;
  c = (struct cmsghdr *) ((unsigned char *) c + CMSG_ALIGN (c->cmsg_len));
  if ((unsigned char *) (c + 1) > ((unsigned char *) m->msg_control + m->msg_controllen)
      || ((unsigned char *) c + CMSG_ALIGN (c->cmsg_len) > ((unsigned char *) m->msg_control + m->msg_controllen)))
    return 0;
  return c;
}
ssize_t recvmsg (int fd, struct msghdr *m, int flags)
{
  size_t room = m->msg_controllen, used = 0; int k, ncm = vf_range (0, 2), have_rights = 0;
  unsigned char *ctl = m->msg_control;
  VF_ASSERT (flags & MSG_CMSG_CLOEXEC, "descriptors are requested close-on-exec");
  VF_ASSERT (room == CMSG_LEN (NFD * sizeof (int)), "the kernel is offered exactly the room for the caller's capacity (no padding that extra descriptors could hide in)");
  if (bytes_ret < 0) { errno = vf_bool () ? EAGAIN : ECONNRESET; return -1; }
  for (k = 0; k < ncm; k++)
    {
      struct cmsghdr *c = (struct cmsghdr *) (ctl + used);
      size_t payload; int rights = vf_bool (), i;
      if (used + sizeof (struct cmsghdr) > room) break;
      payload = (size_t) vf_range (0, NFD * 4);
      if (used + CMSG_LEN (payload) > room) break;                       /* contract: a control message lies inside the buffer offered */
      if (rights && have_rights) rights = 0;                              /* assumption: at most one SCM_RIGHTS message per recvmsg */
      c->cmsg_level = rights ? SOL_SOCKET : vf_int ();
      c->cmsg_type = rights ? SCM_RIGHTS : vf_int ();
      if (!rights) VF_ASSUME (!(c->cmsg_level == SOL_SOCKET && c->cmsg_type == SCM_RIGHTS));
      if (rights) { VF_ASSUME (payload % 4 == 0); have_rights = 1; }
      c->cmsg_len = CMSG_LEN (payload);
      if (rights)
        for (i = 0; i < (int) (payload / 4); i++)
          { VF_ASSERT (n_delivered < MAXDELIV, "ghost table capacity"); ((int *) CMSG_DATA (c))[i] = FD_BASE + n_delivered; fd_open[n_delivered] = 1; n_delivered++; }
      else
        for (i = 0; i < (int) payload; i++) CMSG_DATA (c)[i] = vf_u8 ();
      used += CMSG_ALIGN (CMSG_LEN (payload));
      if (used > room) used = room;
    }
  m->msg_controllen = used;
  m->msg_flags = ctrunc ? MSG_CTRUNC : 0;
  return bytes_ret;
}
static void init_inplace (DBusString *s, unsigned char *buf, int len, int cap)
{
  DBusRealString *r = (DBusRealString *) s;
  r->str = buf; r->len = len; r->allocated = cap; r->constant = 0; r->locked = 0; r->valid = 1; r->align_offset = 0;
}
void harness (void)
{
  unsigned char bytes[32] __attribute__ ((aligned (8))); DBusString buffer; DBusSocket s; int fds[NFD + 1], i, r; unsigned int n = NFD;
  for (i = 0; i < 32; i++) bytes[i] = 0;
  init_inplace (&buffer, bytes, 3, 32);
  ctrunc = vf_bool (); bytes_ret = vf_range (-1, 4);
  for (i = 0; i <= NFD; i++) fds[i] = -7;
  s.fd = 5;
  r = _dbus_read_socket_with_unix_fds (s, &buffer, 4, fds, &n);
  VF_ASSERT (bad_close == 0, "only descriptors the kernel delivered are ever closed or touched");
  VF_ASSERT (fds[NFD] == -7 && n <= NFD, "never more descriptors than the caller has room for");
  if (r < 0)
    {
      VF_ASSERT (_dbus_string_get_length (&buffer) == 3, "a failed read leaves the byte buffer as it was");
      if (bytes_ret >= 0)
        {
          VF_ASSERT (ctrunc && n == 0, "the only failure after a successful recvmsg is control-data truncation, reported with zero descriptors");
          for (i = 0; i < MAXDELIV; i++) if (i < n_delivered) VF_ASSERT (fd_closed[i] == 1 && !fd_open[i], "on truncation every delivered descriptor is closed exactly once");
          VF_WITNESS_OPT ("truncated control data");
        }
    }
  else
    {
      VF_ASSERT (!ctrunc && r == bytes_ret && _dbus_string_get_length (&buffer) == 3 + r, "the byte buffer grows by exactly the bytes read");
      VF_ASSERT ((int) n <= n_delivered, "no descriptor is invented");
      for (i = 0; i < MAXDELIV; i++)
        if (i < n_delivered)
          {
            if (i < (int) n) VF_ASSERT (fds[i] == FD_BASE + i && fd_open[i] && fd_closed[i] == 0 && fd_cloexec[i] >= 1, "delivered descriptors reach the caller in order, open, close-on-exec");
            else VF_ASSERT (fd_closed[i] == 1, "descriptors beyond the caller's capacity are closed exactly once");
          }
#if NFD > 0
      if (n == NFD) VF_WITNESS ("the caller's capacity is filled");
#endif
    }
  VF_WITNESS ("end of harness reached");
}
