/* C15 (receive path) — the real _dbus_read_socket_with_unix_fds
 * (dbus/dbus-sysdeps-unix.c) against an arbitrary kernel answer.  recvmsg is a
 * stub that fills the control buffer it was given with 0..2 control messages of
 * symbolic level/type/length (within the documented contract: each header and
 * its payload lie inside msg_controllen, at most one SCM_RIGHTS message, its
 * payload a whole number of ints, each a freshly opened descriptor) and a
 * symbolic MSG_CTRUNC flag.  A ghost descriptor table records open / closed /
 * close-on-exec.  Checked: every descriptor the kernel delivered is either
 * handed to the caller (in order, within the caller's capacity, close-on-exec
 * set) or closed exactly once; nothing else is closed; on truncation everything
 * is closed, the call fails and reports zero descriptors; the byte buffer is
 * lengthened by exactly the bytes read.   NFD = caller's capacity (shape). */
#include <config.h>
#include <dbus/dbus-internals.h>
#include <dbus/dbus-string.h>
#define DBUS_CAN_USE_DBUS_STRING_PRIVATE 1
#include <dbus/dbus-string-private.h>
#include <dbus/dbus-sysdeps.h>
#include <dbus/dbus-sysdeps-unix.h>
#include <sys/socket.h>
#include <sys/uio.h>
#include <errno.h>
#include <string.h>
#include "vf.h"
/* glibc defines CMSG_DATA(c) as the flexible array member (c)->__cmsg_data; CBMC models a flexible member inside a
 * byte buffer as zero-sized (reads through it did not see the bytes written).  Use the equivalent pointer form, for the
 * real translation unit as well, which is therefore #included here instead of being linked separately. */
#undef CMSG_DATA
#define CMSG_DATA(c) ((unsigned char *) (c) + sizeof (struct cmsghdr))
#include "/repo/dbus/dbus-sysdeps-unix.c"
#ifndef NFD
#define NFD 2
#endif
#define FD_BASE 100
#define MAXDELIV 6
static int fd_open[MAXDELIV], fd_closed[MAXDELIV], fd_cloexec[MAXDELIV], n_delivered, bad_close, ctrunc, bytes_ret;
static int vf_errno;
int *__errno_location (void) { return &vf_errno; }
int close (int fd)
{ if (fd >= FD_BASE && fd < FD_BASE + n_delivered) { fd_closed[fd - FD_BASE]++; fd_open[fd - FD_BASE] = 0; } else bad_close++; return 0; }
#include <fcntl.h>
#include <stdarg.h>
/* CBMC 6.11's built-in memcpy model loses the copy when the length is not a constant (byte_update with a symbolic
 * size left the destination unchanged in the trace; the native replay did not reproduce): byte loop instead. */
void *memcpy (void *d, const void *s, size_t n)
{ size_t k; for (k = 0; k < n; k++) ((unsigned char *) d)[k] = ((const unsigned char *) s)[k]; return d; }
int fcntl (int fd, int cmd, ...)
{
  va_list ap; int arg;
  if (!(fd >= FD_BASE && fd < FD_BASE + n_delivered)) { bad_close++; return -1; }
  if (cmd == F_GETFD) return 0;
  va_start (ap, cmd); arg = va_arg (ap, int); va_end (ap);
  if (cmd == F_SETFD && (arg & FD_CLOEXEC)) fd_cloexec[fd - FD_BASE]++;
  return 0;
}
struct cmsghdr *__cmsg_nxthdr (struct msghdr *m, struct cmsghdr *c)
{
  /* glibc's semantics, computed on offsets so that no out-of-bounds pointer is formed */
  size_t off = (size_t) ((unsigned char *) c - (unsigned char *) m->msg_control), next;
  if ((size_t) c->cmsg_len < sizeof (struct cmsghdr)) return 0;
  next = off + CMSG_ALIGN (c->cmsg_len);
  if (next + sizeof (struct cmsghdr) > m->msg_controllen) return 0;
  { struct cmsghdr *n = (struct cmsghdr *) ((unsigned char *) m->msg_control + next);
    if (next + CMSG_ALIGN (n->cmsg_len) > m->msg_controllen) return 0;
    return n; }
}
/* The kernel's answer has a concrete layout per job (R4): KIND 0 = no control message, 1 = one control message that is
 * not SCM_RIGHTS (symbolic level/type, PAY payload bytes), 2 = one SCM_RIGHTS message carrying PAY descriptors.
 * (With msg_controllen = CMSG_LEN (NFD * 4) exactly, a second control message never fits.) */
#ifndef KIND
#define KIND 2
#endif
#ifndef PAY
#define PAY NFD
#endif
ssize_t recvmsg (int fd, struct msghdr *m, int flags)
{
  size_t room = m->msg_controllen, used = 0;
  unsigned char *ctl = m->msg_control;
  VF_ASSERT (flags & MSG_CMSG_CLOEXEC, "descriptors are requested close-on-exec");
  VF_ASSERT (room == CMSG_LEN (NFD * sizeof (int)), "the kernel is offered exactly the room for the caller's capacity (no padding that extra descriptors could hide in)");
  if (bytes_ret < 0) { vf_errno = vf_bool () ? EAGAIN : ECONNRESET; return -1; }
#if KIND == 1
  {
    struct cmsghdr *c = (struct cmsghdr *) ctl; int i;
    c->cmsg_level = vf_int (); c->cmsg_type = vf_int ();
    VF_ASSUME (!(c->cmsg_level == SOL_SOCKET && c->cmsg_type == SCM_RIGHTS));
    c->cmsg_len = CMSG_LEN (PAY);
    for (i = 0; i < PAY; i++) CMSG_DATA (c)[i] = vf_u8 ();
    used = CMSG_ALIGN (CMSG_LEN (PAY)); if (used > room) used = room;
  }
#elif KIND == 2
  {
    struct cmsghdr *c = (struct cmsghdr *) ctl; int i;
    c->cmsg_level = SOL_SOCKET; c->cmsg_type = SCM_RIGHTS; c->cmsg_len = CMSG_LEN (PAY * sizeof (int));
    for (i = 0; i < PAY; i++) { ((int *) CMSG_DATA (c))[i] = FD_BASE + n_delivered; fd_open[n_delivered] = 1; n_delivered++; }
    used = CMSG_ALIGN (CMSG_LEN (PAY * sizeof (int))); if (used > room) used = room;
  }
#endif
  m->msg_controllen = used;
  m->msg_flags = ctrunc ? MSG_CTRUNC : 0;
  return bytes_ret;
}
static void init_inplace (DBusString *s, unsigned char *buf, int len, int cap)
{
  DBusRealString *r = (DBusRealString *) s;
  r->str = buf; r->len = len; r->allocated = cap; r->constant = 0; r->locked = 0; r->valid = 1; r->align_offset = 0;
}
void harness (void)
{
  unsigned char bytes[32] __attribute__ ((aligned (8))); DBusString buffer; DBusSocket s; int fds[NFD + 1], i, r; unsigned int n = NFD;
  for (i = 0; i < 32; i++) bytes[i] = 0;
  init_inplace (&buffer, bytes, 3, 32);
  ctrunc = vf_bool (); bytes_ret = vf_range (-1, 4);
  for (i = 0; i <= NFD; i++) fds[i] = -7;
  s.fd = 5;
  r = _dbus_read_socket_with_unix_fds (s, &buffer, 4, fds, &n);
  VF_ASSERT (bad_close == 0, "only descriptors the kernel delivered are ever closed or touched");
  VF_ASSERT (fds[NFD] == -7 && n <= NFD, "never more descriptors than the caller has room for");
  if (r < 0)
    {
      VF_ASSERT (_dbus_string_get_length (&buffer) == 3, "a failed read leaves the byte buffer as it was");
      if (bytes_ret >= 0)
        {
          VF_ASSERT (ctrunc && n == 0, "the only failure after a successful recvmsg is control-data truncation, reported with zero descriptors");
          for (i = 0; i < MAXDELIV; i++) if (i < n_delivered) VF_ASSERT (fd_closed[i] == 1 && !fd_open[i], "on truncation every delivered descriptor is closed exactly once");
          VF_WITNESS_OPT ("truncated control data");
        }
    }
  else
    {
      VF_ASSERT (!ctrunc && r == bytes_ret && _dbus_string_get_length (&buffer) == 3 + r, "the byte buffer grows by exactly the bytes read");
      VF_ASSERT ((int) n <= n_delivered, "no descriptor is invented");
      for (i = 0; i < MAXDELIV; i++)
        if (i < n_delivered)
          {
            if (i < (int) n) VF_ASSERT (fds[i] == FD_BASE + i && fd_open[i] && fd_closed[i] == 0 && fd_cloexec[i] >= 1, "delivered descriptors reach the caller in order, open, close-on-exec");
            else VF_ASSERT (fd_closed[i] == 1, "descriptors beyond the caller's capacity are closed exactly once");
          }
#if NFD > 0 && KIND == 2 && PAY == NFD
      if (n == NFD) VF_WITNESS ("the caller's capacity is filled");
#endif
    }
  VF_WITNESS ("end of harness reached");
}
