/* C16.a / C16.d — name, path and UTF-8 predicates vs. the specification's
 * grammars, on every byte string of length <= N at every offset <= PRE inside
 * a longer buffer (full 256-symbol alphabet, embedded NUL included).
 * WHICH selects the predicate. */
#include <config.h>
#include <dbus/dbus-internals.h>
#include <dbus/dbus-string.h>
#include <dbus/dbus-marshal-validate.h>
#include "vf.h"
#include "ref_names.h"

#ifndef N
#define N 8
#endif
#ifndef PRE
#define PRE 2
#endif
#define POST 2
#define TOTAL (PRE + N + POST)

#define W_path 1
#define W_interface 2
#define W_member 3
#define W_error_name 4
#define W_bus_name 5
#define W_bus_namespace 6
#define W_utf8 7
#define PASTE(a, b) a##b
#define WSEL(x) PASTE (W_, x)

void harness (void)
{
  unsigned char buf[TOTAL + 1];
  DBusString s;
  int start = vf_range (0, PRE);
  int len = vf_range (0, N);
  dbus_bool_t r;
  int spec;
  const unsigned char *p;

  vf_bytes (buf, TOTAL);
  buf[TOTAL] = 0;
  _dbus_string_init_const_len (&s, (const char *) buf, TOTAL);
  p = buf + start;

#if WSEL (WHICH) == W_path
  r = _dbus_validate_path (&s, start, len);
  spec = ref_valid_path (p, len);
#elif WSEL (WHICH) == W_interface
  r = _dbus_validate_interface (&s, start, len);
  spec = ref_valid_interface (p, len);
#elif WSEL (WHICH) == W_member
  r = _dbus_validate_member (&s, start, len);
  spec = ref_valid_member (p, len);
#elif WSEL (WHICH) == W_error_name
  r = _dbus_validate_error_name (&s, start, len);
  spec = ref_valid_error_name (p, len);
#elif WSEL (WHICH) == W_bus_name
  r = _dbus_validate_bus_name (&s, start, len);
  spec = ref_valid_bus_name_spec (p, len);
#elif WSEL (WHICH) == W_bus_namespace
  r = _dbus_validate_bus_namespace (&s, start, len);
  spec = ref_valid_bus_namespace_wk (p, len);
#elif WSEL (WHICH) == W_utf8
  r = _dbus_string_validate_utf8 (&s, start, len);
  spec = ref_valid_utf8 (p, len);
#else
#error WHICH
#endif

  VF_ASSERT (r == TRUE || r == FALSE, "verdict is a proper boolean");
#if WSEL (WHICH) == W_bus_name || WSEL (WHICH) == W_bus_namespace
  if (len > 0 && p[0] == ':')
    {
      /* known finding F1: unique names are validated leniently (see ref_names.h) */
      int lenient = ref_unique_name_lenient (p, len);
      VF_ASSERT ((r != 0) == (lenient != 0), "unique-name verdict equals the documented-lenient set");
#if WSEL (WHICH) == W_bus_name
      VF_FINDING (!(r && !spec), "F1-unique-name-lenient");
      VF_ASSERT (!(spec && !r), "every spec-valid unique name is accepted");
#endif
    }
  else
#endif
    VF_ASSERT ((r != 0) == (spec != 0), "verdict equals the specification grammar");

  if (r && len == N) VF_WITNESS ("accepts some string of maximal length");
  if (!r && len == N) VF_WITNESS ("rejects some string of maximal length");
  if (r && start == PRE && len < N) VF_WITNESS ("accepts at non-zero offset");
}
