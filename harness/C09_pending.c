/* C09 / C05.c / C03.d — the pending-reply book-keeping and the transaction
 * machinery of the real bus/connection.c (+ real bus/expirelist.c, dbus-list.c).
 * Pre-state: P pending replies (separate objects) with symbolic caller, callee
 * (among 3 connections) and serial, pairwise different triples.
 * OP 0: expect a reply for a call A->B serial s     (bus_connections_expect_reply)
 * OP 1: a reply X->Y with reply_serial r arrives    (bus_connections_check_reply)
 * OP 2: connection C goes away                      (bus_connection_drop_pending_replies)
 * OP 3: pending item i expires                      (bus_pending_reply_expired: NoReply synthesised through a real transaction)
 * The transaction is then either executed or cancelled (symbolic), using the real
 * bus_transaction_execute_and_free / _cancel_and_free. */
#include <config.h>
#undef DBUS_ENABLE_VERBOSE_MODE
#include <dbus/dbus-internals.h>
#include <dbus/dbus-memory.h>
#include <stdlib.h>
#include <string.h>
#include "vf.h"
#include "msg_model.h"
extern int vf_alloc_calls, vf_oom_at, vf_oom_at2, vf_oom_hit, vf_live_blocks;
static int vf_alloc_fails (void)
{
  vf_alloc_calls++;
  if ((vf_oom_at > 0 && vf_alloc_calls == vf_oom_at) || (vf_oom_at2 > 0 && vf_alloc_calls == vf_oom_at2)) { vf_oom_hit++; return 1; }
  return 0;
}
static void *vf_count_alloc (void *p) { if (p) vf_live_blocks++; return p; }
#undef dbus_new
#undef dbus_new0
#define dbus_new(type, count) (vf_alloc_fails () ? (type *) 0 : (type *) vf_count_alloc (malloc (sizeof (type) * (count))))
#define dbus_new0(type, count) (vf_alloc_fails () ? (type *) 0 : (type *) vf_count_alloc (calloc ((count), sizeof (type))))

struct DBusConnection { int id; void *data; int connected; int refs; };
struct DBusTimeout { int enabled; int interval; int restarts; };
struct DBusPreallocatedSend { int conn; };
#include "/repo/bus/connection.c"
#include "/repo/bus/expirelist.c"     /* BusExpireList is private to this file */

#ifndef P
#define P 2
#endif
#ifndef OP
#define OP 0
#endif
#define NC 3
#ifndef MON
#define MON 3
#endif
#ifndef SEL
#define SEL 3
#endif
#if P > 0
#define W_P1(l) VF_WITNESS (l)
#else
#define W_P1(l) do { } while (0)
#endif

/* ---- environment ---- */
/* separate named objects + pointer tables (R4): arrays of structs with a symbolic index are a cost cliff */
static struct DBusConnection cn0 = { 0, 0, 1, 1 }, cn1 = { 1, 0, 1, 1 }, cn2 = { 2, 0, 1, 1 };
static struct DBusConnection *cnp[NC] = { &cn0, &cn1, &cn2 };
static BusConnectionData cd0, cd1, cd2;
static BusConnectionData *cdp[NC] = { &cd0, &cd1, &cd2 };
static BusConnections conns;
static struct DBusTimeout tmo;
static int cfg_max_replies, policy_allows_driver_msg;
static char cname[NC][5] = { ":1.0", ":1.1", ":1.2" };
void *dbus_connection_get_data (DBusConnection *c, dbus_int32_t slot) { return c->data; }
dbus_bool_t dbus_connection_get_is_connected (DBusConnection *c) { return c->connected; }
DBusConnection *dbus_connection_ref (DBusConnection *c) { c->refs++; return c; }
void dbus_connection_unref (DBusConnection *c) { c->refs--; }
dbus_bool_t dbus_timeout_get_enabled (DBusTimeout *t) { return t->enabled; }
void _dbus_timeout_restart (DBusTimeout *t, int interval) { t->enabled = 1; t->interval = interval; t->restarts++; }
void _dbus_timeout_disable (DBusTimeout *t) { t->enabled = 0; }
int bus_context_get_max_replies_per_connection (BusContext *c) { return cfg_max_replies; }
void bus_context_log (BusContext *c, DBusSystemLogSeverity s, const char *m, ...) { }
BusConnections *bus_context_get_connections (BusContext *c) { return &conns; }
static int vf_now_set; static long vf_now_s, vf_now_us; static int vf_auth_timeout = 30000;
void _dbus_get_monotonic_time (long *s, long *us) { if (vf_now_set) { *s = vf_now_s; *us = vf_now_us; return; } *s = vf_long (); *us = vf_long (); }
int bus_context_get_auth_timeout (BusContext *c) { return vf_auth_timeout; }
dbus_bool_t dbus_connection_get_is_authenticated (DBusConnection *c) { return vf_bool (); }
const char bus_no_memory_message[] = "oom";
static const char *vf_err_name;
void dbus_set_error (DBusError *e, const char *name, const char *fmt, ...) { vf_err_name = name; if (e) { e->name = name; e->message = "m"; } }
void dbus_set_error_const (DBusError *e, const char *name, const char *m) { vf_err_name = name; if (e) { e->name = name; e->message = m; } }
void dbus_error_init (DBusError *e) { e->name = 0; e->message = 0; }
void dbus_error_free (DBusError *e) { e->name = 0; e->message = 0; }
dbus_bool_t dbus_error_is_set (const DBusError *e) { return e->name != 0; }
dbus_bool_t bus_context_check_security_policy (BusContext *context, BusTransaction *transaction, DBusConnection *sender, DBusConnection *addressed_recipient,
                                               DBusConnection *proposed_recipient, DBusMessage *message, BusActivationEntry *activation_entry, DBusError *error)
{
  VF_ASSERT (sender == 0, "driver-originated message is policy-checked with no sender connection");
  if (!policy_allows_driver_msg) { dbus_set_error_const (error, DBUS_ERROR_ACCESS_DENIED, "denied"); return FALSE; }
  return TRUE;
}
DBusPreallocatedSend *dbus_connection_preallocate_send (DBusConnection *c)
{ struct DBusPreallocatedSend *p; if (vf_alloc_fails ()) return 0; p = malloc (sizeof *p); VF_ASSUME (p != 0); p->conn = c->id; vf_live_blocks++; return p; }
void dbus_connection_free_preallocated_send (DBusConnection *c, DBusPreallocatedSend *p) { VF_ASSERT (p->conn == c->id, "preallocation freed on its own connection"); free (p); vf_live_blocks--; }
/* ghost: what actually goes out */
#define NSENT 4
static struct { int conn; struct DBusMessage *m; } sent[NSENT]; static int n_sent;
void dbus_connection_send_preallocated (DBusConnection *c, DBusPreallocatedSend *p, DBusMessage *m, dbus_uint32_t *serial)
{
  VF_ASSERT (p->conn == c->id, "preallocation used on its own connection");
  VF_ASSERT (n_sent < NSENT, "sent-log capacity");
  sent[n_sent].conn = c->id; sent[n_sent].m = m; n_sent++;
  free (p); vf_live_blocks--;
}
/* monitors: present or not (symbolic); their matchmaker selects nobody (capture itself is not the subject here) */
static DBusList vf_monitor_node;
static int mon_select[NC], get_recipients_ok = 1;
dbus_bool_t bus_matchmaker_get_recipients (BusMatchmaker *mm, BusConnections *cs, DBusConnection *s, DBusConnection *a, DBusMessage *m, DBusList **out)
{
  int i;
  if (!get_recipients_ok) return FALSE;
  for (i = 0; i < NC; i++) if (mon_select[i]) { dbus_bool_t ap = _dbus_list_append (out, cnp[i]); VF_ASSUME (ap); }
  return TRUE;
}
/* ---- environment of bus_connection_be_monitor ---- */
static int g_mm_new, g_mm_add, g_mm_disc_monitor, g_mm_disc_main, add_rule_ok = 1, remove_owner_fail_at, g_remove_owner_calls, g_removed_svc[3];
static int tok_main_mm, tok_mon_mm;
BusMatchmaker *bus_matchmaker_new (void) { g_mm_new++; return (BusMatchmaker *) &tok_mon_mm; }
dbus_bool_t bus_matchmaker_add_rule (BusMatchmaker *mm, BusMatchRule *r) { if (!add_rule_ok) return FALSE; g_mm_add++; return TRUE; }
void bus_matchmaker_disconnected (BusMatchmaker *mm, DBusConnection *c) { if (mm == (BusMatchmaker *) &tok_main_mm) g_mm_disc_main++; else g_mm_disc_monitor++; }
BusMatchmaker *bus_context_get_matchmaker (BusContext *c) { return (BusMatchmaker *) &tok_main_mm; }
dbus_bool_t bus_service_remove_owner (BusService *s, DBusConnection *c, BusTransaction *t, DBusError *e)
{
  int idx = (int) ((long) s) - 1;
  g_remove_owner_calls++;
  if (remove_owner_fail_at && g_remove_owner_calls == remove_owner_fail_at) { e->name = DBUS_ERROR_NO_MEMORY; e->message = "m"; return FALSE; }
  if (idx >= 0 && idx < 3) g_removed_svc[idx]++;
  return TRUE;
}
static dbus_uint32_t vf_next_serial = 1000;
dbus_uint32_t _dbus_connection_get_next_client_serial (DBusConnection *c) { return vf_next_serial++; }
static int vf_pending_fds_now, n_closed;
int _dbus_connection_get_pending_fds_count (DBusConnection *c) { return vf_pending_fds_now; }
int bus_context_get_pending_fd_timeout (BusContext *c) { return 4242; }
static int closed_mask;
/* ---- OP 9 environment: completion of a connection (Hello) with every fallible step symbolic ---- */
static int uid_count, cfg_max_completed = 100, cfg_max_per_user = 100, str_fail_at, str_calls, have_uid = 1, n_watch_checks;
static int sfail (void) { str_calls++; return str_fail_at && str_calls == str_fail_at; }
void *_dbus_hash_table_lookup_uintptr (DBusHashTable *h, uintptr_t k) { return _DBUS_INT_TO_POINTER (uid_count); }
dbus_bool_t _dbus_hash_table_insert_uintptr (DBusHashTable *h, uintptr_t k, void *v) { if (sfail ()) return 0; uid_count = _DBUS_POINTER_TO_INT (v); return 1; }
dbus_bool_t _dbus_hash_table_remove_uintptr (DBusHashTable *h, uintptr_t k) { uid_count = 0; return 1; }
int bus_context_get_max_completed_connections (BusContext *c) { return cfg_max_completed; }
int bus_context_get_max_connections_per_user (BusContext *c) { return cfg_max_per_user; }
dbus_bool_t dbus_connection_get_unix_user (DBusConnection *c, unsigned long *uid) { *uid = 1000; return have_uid; }
dbus_bool_t _dbus_string_copy_data (const DBusString *s, char **out) { char *nm; if (sfail ()) return 0; nm = malloc (8); VF_ASSUME (nm != 0); nm[0] = ':'; nm[1] = 0; *out = nm; return 1; }
static int policy_tok;
BusClientPolicy *bus_context_create_client_policy (BusContext *c, DBusConnection *conn, DBusError *e) { if (sfail ()) { e->name = DBUS_ERROR_NO_MEMORY; e->message = "m"; return 0; } return (BusClientPolicy *) &policy_tok; }
void bus_client_policy_unref (BusClientPolicy *p) { }
void bus_context_check_all_watches (BusContext *c) { n_watch_checks++; }
/* ---- OP 11 environment: tearing a connection down ---- */
static int cfg_max_incomplete = 64;
int bus_context_get_max_incomplete_connections (BusContext *c) { return cfg_max_incomplete; }
void bus_dispatch_remove_connection (DBusConnection *c) { }
static int n_watch_fn_set, n_timeout_fn_set;
dbus_bool_t dbus_connection_set_watch_functions (DBusConnection *c, DBusAddWatchFunction a, DBusRemoveWatchFunction r, DBusWatchToggledFunction t, void *d, DBusFreeFunction f) { if (OP == 13 && a != 0 && sfail ()) return 0; n_watch_fn_set = a != 0; return 1; }
dbus_bool_t dbus_connection_set_timeout_functions (DBusConnection *c, DBusAddTimeoutFunction a, DBusRemoveTimeoutFunction r, DBusTimeoutToggledFunction t, void *d, DBusFreeFunction f) { if (OP == 13 && a != 0 && sfail ()) return 0; n_timeout_fn_set = a != 0; return 1; }
void dbus_connection_set_unix_user_function (DBusConnection *c, DBusAllowUnixUserFunction fn, void *d, DBusFreeFunction f) { }
void dbus_connection_set_windows_user_function (DBusConnection *c, DBusAllowWindowsUserFunction fn, void *d, DBusFreeFunction f) { }
void dbus_connection_set_dispatch_status_function (DBusConnection *c, DBusDispatchStatusFunction fn, void *d, DBusFreeFunction f) { }
void _dbus_connection_set_pending_fds_function (DBusConnection *c, DBusPendingFdsChangeFunction cb, void *d) { }
void bus_containers_remove_connection (BusContainers *cs, DBusConnection *c) { }
BusContainers *bus_context_get_containers (BusContext *c) { return 0; }
static int data_cleared;
#if OP == 13
static DBusFreeFunction vf_data_free; static int n_data_frees;
dbus_bool_t dbus_connection_set_data (DBusConnection *c, dbus_int32_t slot, void *data, DBusFreeFunction f)
{ if (data != 0) { if (sfail ()) return 0; c->data = data; vf_data_free = f; return 1; }
  data_cleared++; if (vf_data_free) { DBusFreeFunction ff = vf_data_free; void *old = c->data; vf_data_free = 0; c->data = 0; n_data_frees++; ff (old); } return 1; }
#else
dbus_bool_t dbus_connection_set_data (DBusConnection *c, dbus_int32_t slot, void *data, DBusFreeFunction f) { if (data == 0) data_cleared++; return 1; }   /* the connection data block is not freed in the model */
#endif

#if OP == 13
/* ---- OP 13 environment: accepting a connection ---- */
static int n_dispatch_added, n_timeouts_live, n_loop_timeouts, lsm_fail, aa_tok, n_aa_unref; static struct DBusTimeout pfd_tmo;
void dbus_connection_set_route_peer_messages (DBusConnection *c, dbus_bool_t v) { }
BusSELinuxID *bus_selinux_init_connection_id (DBusConnection *c, DBusError *e) { if (lsm_fail == 1) { e->name = DBUS_ERROR_FAILED; e->message = "m"; } return 0; }
BusAppArmorConfinement *bus_apparmor_init_connection_confinement (DBusConnection *c, DBusError *e) { if (lsm_fail == 2) { e->name = DBUS_ERROR_FAILED; e->message = "m"; return 0; } return (BusAppArmorConfinement *) &aa_tok; }
void bus_apparmor_confinement_unref (BusAppArmorConfinement *a) { n_aa_unref++; }
dbus_bool_t bus_dispatch_add_connection (DBusConnection *c) { if (sfail ()) return 0; n_dispatch_added++; return 1; }
DBusDispatchStatus dbus_connection_get_dispatch_status (DBusConnection *c) { return vf_bool () ? DBUS_DISPATCH_DATA_REMAINS : DBUS_DISPATCH_COMPLETE; }
DBusLoop *bus_context_get_loop (BusContext *c) { return 0; }
dbus_bool_t _dbus_loop_queue_dispatch (DBusLoop *l, DBusConnection *c) { return !sfail (); }
DBusTimeout *_dbus_timeout_new (int interval, DBusTimeoutHandler h, void *d, DBusFreeFunction f) { if (sfail ()) return 0; n_timeouts_live++; pfd_tmo.enabled = 1; return &pfd_tmo; }
void _dbus_timeout_unref (DBusTimeout *t) { n_timeouts_live--; }
dbus_bool_t _dbus_loop_add_timeout (DBusLoop *l, DBusTimeout *t) { if (sfail ()) return 0; n_loop_timeouts++; return 1; }
#endif
DBusCredentials *_dbus_connection_get_credentials (DBusConnection *c) { return 0; }
dbus_bool_t _dbus_string_init (DBusString *s) { return !sfail (); }
void _dbus_string_free (DBusString *s) { }
dbus_bool_t _dbus_string_append_printf (DBusString *s, const char *f, ...) { return !sfail (); }
dbus_bool_t _dbus_string_append_byte (DBusString *s, unsigned char b) { return !sfail (); }
dbus_bool_t _dbus_string_steal_data (DBusString *s, char **out) { char *li; if (sfail ()) return 0; li = malloc (8); VF_ASSUME (li != 0); li[0] = 0; *out = li; return 1; }
void dbus_connection_close (DBusConnection *c) { int i; n_closed++; for (i = 0; i < NC; i++) if (c == cnp[i]) closed_mask |= 1 << i; }
dbus_bool_t bus_containers_connection_is_contained (DBusConnection *c, const char **path, const char **type, const char **name) { return FALSE; }

/* ---- reference: set of (caller, callee, serial) triples ---- */
struct trip { int get, send; dbus_uint32_t serial; int present; };

void harness (void)
{
  struct trip t[4]; BusPendingReply *pr[4]; DBusList *ln[4];
  static BusExpireList elist; static struct DBusMessage msg; static char ms[6][VF_STRMAX + 1];
  BusTransaction *tr; DBusError err; int i, j, commit = vf_bool ();
  int n_before, n_after = 0;

  for (i = 0; i < NC; i++) { cnp[i]->data = cdp[i]; cdp[i]->connection = cnp[i]; cdp[i]->connections = &conns; cdp[i]->name = cname[i]; }
  conns.refcount = 1; conns.context = (BusContext *) &conns; conns.pending_replies = &elist;
  elist.timeout = &tmo; elist.expire_after = vf_int (); tmo.enabled = vf_bool ();
  for (i = 0; i < P; i++)
    {
      t[i].get = vf_range (0, NC - 1); t[i].send = vf_range (-1, NC - 1); t[i].serial = vf_u32 (); t[i].present = 1;
      VF_ASSUME (t[i].send != t[i].get);
      for (j = 0; j < i; j++) VF_ASSUME (!(t[j].get == t[i].get && t[j].send == t[i].send && t[j].serial == t[i].serial));   /* invariant: no duplicate slot */
      pr[i] = calloc (1, sizeof (BusPendingReply)); ln[i] = calloc (1, sizeof (DBusList));
      VF_ASSUME (pr[i] && ln[i]);
      pr[i]->will_get_reply = cnp[t[i].get]; pr[i]->will_send_reply = t[i].send < 0 ? 0 : cnp[t[i].send]; pr[i]->reply_serial = t[i].serial;
      pr[i]->expire_item.added_tv_sec = vf_long (); pr[i]->expire_item.added_tv_usec = vf_long ();
      ln[i]->data = pr[i];
    }
  for (i = 0; i < P; i++) { ln[i]->next = ln[(i + 1) % P]; ln[i]->prev = ln[(i + P - 1) % P]; }
  elist.items = P ? ln[0] : 0;
  n_before = P;
  vf_msg_symbolic (&msg, ms);
  VF_ASSUME (msg.serial != 0);                 /* every received message has a non-zero serial (C01) */
  if (vf_bool ()) { vf_monitor_node.next = vf_monitor_node.prev = &vf_monitor_node; vf_monitor_node.data = cnp[2]; conns.monitors = &vf_monitor_node; conns.monitor_matchmaker = (BusMatchmaker *) &conns; }
  dbus_error_init (&err);
  cfg_max_replies = vf_range (1, 0x7fffffff);
  policy_allows_driver_msg = vf_bool ();

#if OP == 0
  {
    int a = vf_range (0, NC - 1), b = vf_range (0, NC - 1), count = 0, dup = 0; dbus_bool_t ok;
    VF_ASSUME (a != b);
    tr = bus_transaction_new ((BusContext *) &conns); VF_ASSUME (tr != 0);
    ok = bus_connections_expect_reply (&conns, tr, cnp[a], cnp[b], &msg, &err);
    for (i = 0; i < P; i++) { if (t[i].get == a) count++; if (t[i].get == a && t[i].send == b && t[i].serial == msg.serial) dup = 1; }
    if (msg.no_reply)
      { VF_ASSERT (ok && _dbus_list_get_length (&elist.items) == P, "a call flagged no-reply opens no reply slot"); VF_WITNESS ("no-reply call"); }
    else if (dup)
      { VF_ASSERT (!ok && err.name && strcmp (err.name, DBUS_ERROR_ACCESS_DENIED) == 0 && _dbus_list_get_length (&elist.items) == P, "a second call with an outstanding serial is refused"); W_P1 ("duplicate serial"); }
    else if (count >= cfg_max_replies)
      { VF_ASSERT (!ok && err.name && strcmp (err.name, DBUS_ERROR_LIMITS_EXCEEDED) == 0 && _dbus_list_get_length (&elist.items) == P, "at the pending-replies limit => LimitsExceeded, nothing changes"); W_P1 ("limit reached"); }
    else
      {
        BusPendingReply *np;
        VF_ASSERT (ok && !err.name, "expect_reply succeeds below the limit");
        VF_ASSERT (_dbus_list_get_length (&elist.items) == P + 1, "exactly one slot is opened");
        np = _dbus_list_get_first (&elist.items);
        VF_ASSERT (np->will_get_reply == cnp[a] && np->will_send_reply == cnp[b] && np->reply_serial == msg.serial, "the slot records caller, callee and the call's serial");
        VF_ASSERT (tmo.enabled, "the expiry timer is armed");
        if (commit) { bus_transaction_execute_and_free (tr); VF_ASSERT (_dbus_list_get_length (&elist.items) == P + 1, "slot stays after commit"); VF_WITNESS ("slot opened and committed"); }
        else { bus_transaction_cancel_and_free (tr); VF_ASSERT (_dbus_list_get_length (&elist.items) == P, "cancelling the transaction closes the slot again"); VF_WITNESS ("slot opened and cancelled"); }
        tr = 0;
      }
    if (tr) bus_transaction_cancel_and_free (tr);
    for (i = 0; i < P; i++) VF_ASSERT (bus_expire_list_contains_item (&elist, &pr[i]->expire_item), "existing slots are untouched");
  }
#elif OP == 1
  {
    int x = vf_range (0, NC - 1), y = vf_range (0, NC - 1), hit = -1; dbus_bool_t ok;
    VF_ASSUME (x != y);
    tr = bus_transaction_new ((BusContext *) &conns); VF_ASSUME (tr != 0);
    ok = bus_connections_check_reply (&conns, tr, cnp[x], cnp[y], &msg, &err);
    for (i = 0; i < P; i++) if (t[i].get == y && t[i].send == x && t[i].serial == msg.reply_serial) hit = i;
    VF_ASSERT ((ok != 0) == (hit >= 0), "a reply is a requested reply exactly when the receiver has an open slot for this sender and serial");
    VF_ASSERT (!err.name, "no error when memory is available");
    if (ok)
      {
        VF_ASSERT (_dbus_list_get_length (&elist.items) == P - 1 && !bus_expire_list_contains_item (&elist, &pr[hit]->expire_item), "the matching slot is consumed: a second reply is not requested");
        for (i = 0; i < P; i++) if (i != hit) VF_ASSERT (bus_expire_list_contains_item (&elist, &pr[i]->expire_item), "other slots are untouched");
        if (commit) { bus_transaction_execute_and_free (tr); VF_ASSERT (_dbus_list_get_length (&elist.items) == P - 1, "slot stays consumed after commit");
#if P > 0
          VF_WITNESS ("reply accepted and committed");
#endif
        }
        else { bus_transaction_cancel_and_free (tr); VF_ASSERT (_dbus_list_get_length (&elist.items) == P && bus_expire_list_contains_item (&elist, &pr[hit]->expire_item), "cancelling restores the slot");
#if P > 0
          VF_WITNESS ("reply accepted then cancelled");
#endif
        }
      }
    else
      {
        VF_ASSERT (_dbus_list_get_length (&elist.items) == P, "an unrequested reply changes nothing");
        bus_transaction_cancel_and_free (tr);
        VF_WITNESS ("unrequested reply");
      }
  }
#elif OP == 2
  {
    int c = vf_range (0, NC - 1), kept = 0;
    bus_connection_drop_pending_replies (&conns, cnp[c]);
    for (i = 0; i < P; i++)
      {
        int in = bus_expire_list_contains_item (&elist, &pr[i]->expire_item);
        if (t[i].get == c) VF_ASSERT (!in, "slots of a vanished caller are dropped without a message");
        else
          {
            kept++;
            VF_ASSERT (in, "other slots stay");
            if (t[i].send == c)
              VF_ASSERT (pr[i]->will_send_reply == 0 && pr[i]->expire_item.added_tv_sec == 0 && pr[i]->expire_item.added_tv_usec == 0 && tmo.enabled && tmo.interval == 0,
                         "slots whose callee vanished are marked for immediate expiry (NoReply to the caller)");
            else
              VF_ASSERT (pr[i]->will_send_reply == (t[i].send < 0 ? 0 : cnp[t[i].send]), "unrelated slots are unchanged");
          }
      }
    VF_ASSERT (_dbus_list_get_length (&elist.items) == kept, "nothing else in the list");
    VF_ASSERT (n_sent == 0, "disconnect itself sends nothing");
    VF_WITNESS ("disconnect processed");
  }
#elif OP == 5
  {
    /* C18: bus_transaction_capture — every monitor the monitors' matchmaker selects gets exactly one copy; nobody else; no monitors => no effect at all */
    /* monitors present (MON bit0/bit1) and selected by their matchmaker (SEL bit0/bit1) are the shape (R4) */
    int m0 = (MON & 1) != 0, m1 = (MON & 2) != 0, live0 = vf_live_blocks; dbus_bool_t ok; static DBusList mn0, mn1;
    conns.monitors = 0; conns.monitor_matchmaker = 0;
    if (m0 || m1)
      {
        DBusList *a = m0 ? &mn0 : &mn1, *b = (m0 && m1) ? &mn1 : a;
        mn0.data = cnp[1]; mn1.data = cnp[2];
        a->next = b; a->prev = b; b->next = a; b->prev = a;
        conns.monitors = a; conns.monitor_matchmaker = (BusMatchmaker *) &tok_mon_mm;
      }
    mon_select[1] = m0 && (SEL & 1); mon_select[2] = m1 && (SEL & 2); mon_select[0] = 0;
    msg.sender = cname[0];
    tr = bus_transaction_new ((BusContext *) &conns); VF_ASSUME (tr != 0);
    ok = bus_transaction_capture (tr, cnp[0], 0, &msg);
    VF_ASSERT (ok, "capture succeeds when memory is available");
    if (!m0 && !m1) VF_ASSERT (cdp[1]->transaction_messages == 0 && cdp[2]->transaction_messages == 0 && tr->connections == 0, "without monitors, capture stages nothing (the bus behaves as if capture did not exist)");
    bus_transaction_execute_and_free (tr);
    {
      int s1 = 0, s2 = 0, s0 = 0;
      for (i = 0; i < NSENT; i++) if (i < n_sent) { if (sent[i].conn == 1) s1++; else if (sent[i].conn == 2) s2++; else s0++; VF_ASSERT (sent[i].m == &msg, "monitors get the message itself"); }
      VF_ASSERT (s1 == (mon_select[1] ? 1 : 0) && s2 == (mon_select[2] ? 1 : 0) && s0 == 0, "each selected monitor receives exactly one copy, nobody else receives anything");
      if (s1 && s2) VF_WITNESS_OPT ("two monitors served");
    }
    (void) live0;
  }
#elif OP == 6
  {
    /* C18: bus_connection_be_monitor — all-or-nothing */
    static DBusList sv0, sv1, rule_node; static DBusList *rules; int nsvc = vf_range (0, 2), had_rules = vf_bool (); dbus_bool_t ok; static BusTransaction trs;
    BusConnectionData *d = cdp[0];
    sv0.data = (void *) 1L; sv1.data = (void *) 2L;
    if (nsvc == 1) { sv0.next = sv0.prev = &sv0; d->services_owned = &sv0; }
    if (nsvc == 2) { sv0.next = &sv1; sv0.prev = &sv1; sv1.next = &sv0; sv1.prev = &sv0; d->services_owned = &sv0; }
    d->n_services_owned = nsvc; d->n_match_rules = had_rules ? 3 : 0;
    rule_node.data = &rule_node; rule_node.next = rule_node.prev = &rule_node; rules = vf_bool () ? &rule_node : 0;
    conns.monitors = 0; conns.monitor_matchmaker = vf_bool () ? (BusMatchmaker *) &tok_mon_mm : 0;
    add_rule_ok = vf_bool (); remove_owner_fail_at = vf_range (0, 2);
    trs.context = (BusContext *) &conns;
    ok = bus_connection_be_monitor (cnp[0], &trs, &rules, &err);
    if (ok)
      {
        VF_ASSERT (bus_connection_is_monitor (cnp[0]) && conns.monitors != 0 && conns.monitors->data == cnp[0], "the connection is now in the monitors list");
        VF_ASSERT (g_remove_owner_calls == nsvc && (nsvc < 1 || g_removed_svc[0] == 1) && (nsvc < 2 || g_removed_svc[1] == 1), "every name it owned is released, each exactly once, inside the transaction");
        VF_ASSERT (g_mm_disc_main == (had_rules ? 1 : 0), "its ordinary match rules are dropped");
        for (i = 0; i < P; i++) if (t[i].get == 0) VF_ASSERT (!bus_expire_list_contains_item (&elist, &pr[i]->expire_item), "its own pending calls are forgotten");
        VF_WITNESS ("became a monitor");
      }
    else
      {
        VF_ASSERT (err.name != 0, "failure carries an error");
        VF_ASSERT (!bus_connection_is_monitor (cnp[0]) && conns.monitors == 0, "on failure the connection stays an ordinary client");
        VF_ASSERT (g_mm_disc_main == 0, "and keeps its ordinary match rules");
        VF_ASSERT (g_mm_add == 0 || g_mm_disc_monitor >= 1, "monitor rules that were added are withdrawn");
        VF_WITNESS_OPT ("becoming a monitor failed");
      }
  }
#elif OP == 7
  {
    /* C15: surplus descriptors are held only while the pending-fd timer runs.  One-step induction on
     * check_pending_fds_cb: invariant "timer armed <=> the connection has pending (unconsumed) descriptors". */
    static struct DBusTimeout pt; int old = vf_range (0, 1000), neu; BusConnectionData *d = cdp[0];
    vf_pending_fds_now = neu = vf_range (0, 1000);
    d->pending_unix_fds_timeout = &pt; d->n_pending_unix_fds = old; pt.enabled = (old > 0); pt.restarts = 0;
    check_pending_fds_cb (cnp[0]);
    VF_ASSERT (d->n_pending_unix_fds == neu, "the recorded count follows the connection's pending-descriptor count");
    VF_ASSERT (pt.enabled == (neu > 0), "the pending-fd timer is armed exactly while descriptors are pending");
    if (old > 0 && neu > 0) VF_ASSERT (pt.restarts == 0, "the timer is not restarted while descriptors stay pending (a peer cannot keep it from firing by trickling descriptors)");
    if (old == 0 && neu > 0) { VF_ASSERT (pt.restarts == 1 && pt.interval == 4242, "armed with the configured pending_fd_timeout"); VF_WITNESS_OPT ("timer armed"); }
    n_closed = 0;
    pending_unix_fds_timeout_cb (cnp[0]);
    VF_ASSERT (n_closed == 1, "when the timer fires the connection is closed");
  }
#elif OP == 8
  {
    /* C10: a peer that has not completed Hello within auth_timeout is dropped, whatever else is true of it (authenticated or not);
     * younger ones are left alone and the expiry timer is re-armed for the oldest survivor.  One call of the real
     * bus_connections_expire_incomplete on a two-entry incomplete list (oldest first, as bus_connections_setup_connection appends). */
    static struct DBusTimeout et; static DBusList l0, l1; long s0, u0, s1, u1, e0, e1; int at;
    /* times are CONCRETE per job (TCASE): the elapsed-time arithmetic is in double, which no back end here decides symbolically within
     * 25 minutes (cadical, kissat, z3, cvc5 tried); what stays symbolic is everything else the decision could wrongly depend on
     * (authentication state, timer state, other connections).  TCASE: ages of the two connections and auth_timeout in ms. */
#ifndef TCASE
#define TCASE 0
#endif
    { static const long tc[][3] = { {40000, 10000, 30000}, {40000, 35000, 30000}, {5000, 2000, 30000}, {30000, 29999, 30000}, {30001, 30000, 30000}, {1, 0, 1} };
      long a0 = tc[TCASE][0], a1 = tc[TCASE][1];
      vf_now_set = 1; vf_now_s = 1000; vf_now_us = 500000; vf_auth_timeout = at = (int) tc[TCASE][2];
      { long t0 = vf_now_s * 1000000 + vf_now_us - a0 * 1000, t1 = vf_now_s * 1000000 + vf_now_us - a1 * 1000; s0 = t0 / 1000000; u0 = t0 % 1000000; s1 = t1 / 1000000; u1 = t1 % 1000000; } }
    cdp[0]->connection_tv_sec = s0; cdp[0]->connection_tv_usec = u0; cdp[1]->connection_tv_sec = s1; cdp[1]->connection_tv_usec = u1;
    l0.data = cnp[0]; l1.data = cnp[1]; l0.next = &l1; l0.prev = &l1; l1.next = &l0; l1.prev = &l0; conns.incomplete = &l0; conns.n_incomplete = 2;
    conns.expire_timeout = &et; et.enabled = vf_bool (); closed_mask = 0;
    /* elapsed time in microseconds, exact (the job's values are exactly representable in double) */
    e0 = ((vf_now_s - s0) * 1000000 + (vf_now_us - u0)); e1 = ((vf_now_s - s1) * 1000000 + (vf_now_us - u1));
    bus_connections_expire_incomplete (&conns);
    if (e0 >= (long) at * 1000) VF_ASSERT (closed_mask & 1, "the oldest incomplete connection is closed once auth_timeout has elapsed");
    if (e1 >= (long) at * 1000) VF_ASSERT ((closed_mask & 3) == 3, "every incomplete connection older than auth_timeout is closed, authenticated or not");
    if (e0 < (long) at * 1000) VF_ASSERT (closed_mask == 0, "connections younger than auth_timeout are left alone");
    if (e1 < (long) at * 1000) VF_ASSERT (!(closed_mask & 2), "a younger connection is not closed with an older one");
    VF_ASSERT (!(closed_mask & 4), "complete connections are never expired");
    if ((closed_mask & 3) == 3) VF_ASSERT (!et.enabled, "nothing left: the expiry timer is disabled");
    else if (e0 < (long) at * 1000) VF_ASSERT (et.enabled && et.interval >= at - e0 / 1000 - 2 && et.interval <= at - e0 / 1000 + 1, "timer re-armed for the oldest survivor");
    else if ((closed_mask & 3) == 1 && e1 <= ((long) at - 1) * 1000) VF_ASSERT (et.enabled && et.interval >= at - e1 / 1000 - 2 && et.interval <= at - e1 / 1000 + 1, "timer re-armed for the oldest survivor");
    if ((closed_mask & 3) == 1) VF_WITNESS_OPT ("one of two incomplete connections expired");
    if ((closed_mask & 3) == 3) VF_WITNESS_OPT ("both expired");
  }
#elif OP == 9
  {
    /* C13 / C14: one Hello completing connection 0.  Limits: after a completion that the limit check admitted, the number of completed connections and the
     * per-user count are within max_completed_connections / max_connections_per_user (inductive).  OOM: a completion that fails leaves every counter,
     * the lists, the name and the policy as they were — in particular the per-user count (finding F17 if not). */
    static DBusList l0; static DBusString nm; static struct DBusTimeout et; int n0, u0, i0; dbus_bool_t admitted, done; const char *ln = 0; int lv = 0; static char heapname;
    cfg_max_completed = vf_range (1, 1000); cfg_max_per_user = vf_range (1, 1000);
    conns.n_completed = n0 = vf_range (0, 1000); uid_count = u0 = vf_range (0, 1000); VF_ASSUME (n0 <= cfg_max_completed && u0 <= cfg_max_per_user && u0 <= n0);     /* inductive hypothesis */
    have_uid = vf_bool (); str_fail_at = vf_range (0, 8); str_calls = 0;
    l0.data = cnp[0]; l0.next = l0.prev = &l0; conns.incomplete = &l0; conns.n_incomplete = i0 = 1; conns.completed = 0; conns.expire_timeout = &et; vf_now_set = 1;
    cdp[0]->link_in_connection_list = &l0; cdp[0]->name = 0; cdp[0]->policy = 0;
    admitted = bus_connections_check_limits (&conns, cnp[0], &ln, &lv, &err);
    if (!admitted)
      {
        VF_ASSERT (vf_err_name && strcmp (vf_err_name, DBUS_ERROR_LIMITS_EXCEEDED) == 0, "a refused completion is reported as LimitsExceeded");
        VF_ASSERT (n0 >= cfg_max_completed || (have_uid && u0 >= cfg_max_per_user), "refused only at a limit");
        VF_ASSERT (conns.n_completed == n0 && uid_count == u0, "and changes nothing");
        VF_WITNESS_OPT ("connection limit reached");
      }
    else
      {
        VF_ASSERT (n0 < cfg_max_completed && (!have_uid || u0 < cfg_max_per_user), "admitted only below both limits");
        str_calls = 0;
        done = bus_connection_complete (cnp[0], &nm, &err);
        VF_ASSERT (conns.n_completed <= cfg_max_completed && uid_count <= cfg_max_per_user, "the configured connection limits are never exceeded");
        if (done)
          {
            VF_ASSERT (conns.n_completed == n0 + 1 && uid_count == u0 + (have_uid ? 1 : 0) && conns.n_incomplete == i0 - 1 && cdp[0]->name != 0 && cdp[0]->policy != 0, "a completed connection is counted once, globally and for its user");
            VF_ASSERT (n_watch_checks >= 1, "and the accept watches are re-evaluated (the incomplete count dropped)");
            VF_WITNESS_OPT ("connection completed");
          }
        else
          {
            VF_ASSERT (conns.n_completed == n0 && conns.n_incomplete == i0 && cdp[0]->name == 0 && cdp[0]->policy == 0 && conns.incomplete == &l0, "a failed completion leaves the lists, counters, name and policy as they were");
            VF_FINDING (uid_count == u0, "F17-failed-completion-leaks-per-user-count");
            VF_WITNESS_OPT ("completion failed for lack of memory");
          }
      }
  }
#elif OP == 10
#ifndef D0
#define D0 0
#define D1 0
#define D2 0
#endif
  {
    /* C05.c: messages staged in one transaction reach each connection in the order they were staged (per-recipient FIFO), exactly once, and only on execute;
     * a cancelled transaction delivers nothing.  Three messages with symbolic recipients through the real bus_transaction_send / execute / cancel. */
    static struct DBusMessage m1, m2, m3; struct DBusMessage *mm[3] = { &m1, &m2, &m3 }; int dst[3], k, seen, last, do_exec = vf_bool (); dbus_bool_t ok;
    for (k = 0; k < 3; k++) { mm[k]->refcount = 1; mm[k]->type = DBUS_MESSAGE_TYPE_SIGNAL; mm[k]->serial = 0; mm[k]->sender = cname[0]; }
    dst[0] = D0; dst[1] = D1; dst[2] = D2;          /* recipients are job shape (symbolic recipients make every per-connection list symbolic: no verdict) */
    tr = bus_transaction_new ((BusContext *) &conns); VF_ASSUME (tr != 0);
    for (k = 0; k < 3; k++) { ok = bus_transaction_send (tr, NULL, cnp[dst[k]], mm[k]); VF_ASSERT (ok, "staging succeeds when memory is available"); }
    VF_ASSERT (n_sent == 0, "nothing is sent before the transaction is executed");
    if (do_exec) bus_transaction_execute_and_free (tr); else bus_transaction_cancel_and_free (tr);
    if (!do_exec) { VF_ASSERT (n_sent == 0, "a cancelled transaction delivers nothing"); VF_WITNESS_OPT ("transaction cancelled"); }
    else
      {
        VF_ASSERT (n_sent == 3, "every staged message is sent exactly once");
        for (i = 0; i < NC; i++)
          { last = -1;
            for (j = 0; j < 3; j++) if (sent[j].conn == i)
              { seen = -1; for (k = 0; k < 3; k++) if (sent[j].m == mm[k]) seen = k;
                VF_ASSERT (seen >= 0 && dst[seen] == i, "a message goes to the connection it was staged for");
                VF_ASSERT (seen > last, "messages for one connection are sent in the order they were staged"); last = seen; } }
        if (dst[0] == dst[1] && dst[1] == dst[2]) VF_WITNESS_OPT ("three messages to one connection");
      }
  }
#elif OP == 11
  {
    /* C10 / C13: tearing down a connection keeps the bus's connection accounting right: an incomplete (never said Hello) connection leaves the incomplete
     * list and the accept watches are re-evaluated — whenever the number of incomplete connections drops, so that listening resumes after the
     * max_incomplete_connections gate had closed; a completed one leaves the completed list and its user's count. */
    DBusList *lp = calloc (1, sizeof (DBusList)); int inc = vf_bool (), n0, i0, u0; static char nm0[] = ":1.9";
#define l0 (*lp)
    VF_ASSUME (lp != 0);
    have_uid = vf_bool (); cfg_max_incomplete = vf_range (1, 1000);
    conns.n_completed = n0 = vf_range (1, 1000); conns.n_incomplete = i0 = vf_range (1, 1000); uid_count = u0 = vf_range (1, 1000); VF_ASSUME (i0 <= cfg_max_incomplete);
    l0.data = cnp[0]; l0.next = l0.prev = &l0; cdp[0]->link_in_connection_list = &l0;
    if (inc) { conns.incomplete = &l0; cdp[0]->name = 0; } else { conns.completed = &l0; cdp[0]->name = nm0; }
    cdp[0]->n_match_rules = 0; cdp[0]->services_owned = 0; cdp[0]->pending_unix_fds_timeout = 0; cdp[0]->link_in_monitors = 0; cdp[0]->transaction_messages = 0; cnp[0]->refs = 2;
    n_watch_checks = 0;
    bus_connection_disconnected (cnp[0]);
    if (inc)
      {
        VF_ASSERT (conns.n_incomplete == i0 - 1 && conns.n_completed == n0 && conns.incomplete == 0 && uid_count == u0, "an incomplete connection leaves the incomplete list and count only");
        VF_ASSERT (n_watch_checks >= 1, "the accept watches are re-evaluated whenever the number of incomplete connections drops (listening resumes after the gate had closed)");
        VF_WITNESS_OPT ("incomplete connection torn down");
      }
    else
      {
        VF_ASSERT (conns.n_completed == n0 - 1 && conns.n_incomplete == i0 && conns.completed == 0 && uid_count == u0 - (have_uid ? 1 : 0), "a completed connection leaves the completed list, the count and its user's count");
        VF_WITNESS_OPT ("completed connection torn down");
      }
    VF_ASSERT (data_cleared == 1 && cnp[0]->refs == 1 && cdp[0]->link_in_connection_list == 0, "the bus's per-connection data and its reference are released once");
#undef l0
  }
#elif OP == 13
  {
    /* C13 / C14: accepting one connection — the real bus_connections_setup_connection.  The accept watch only fires while the gate is open (C13 accept_gate:
     * open <=> incomplete connections < max_incomplete_connections), so the step starts below the limit.  Success: the connection is appended to the
     * incomplete list (newest last), counted once, referenced once, the count stays within the limit and the gate is re-evaluated.  Failure of any
     * fallible step (k-th of 9, k symbolic; or a security-module refusal): nothing stays behind — count, list, reference, dispatch registration as
     * before, callbacks cleared, the per-connection block freed exactly once, the pending-fd timeout released. */
    static struct DBusConnection nc = { 9, 0, 1, 1 }; static struct DBusTimeout et; static DBusList l0; int i0, blocks0, had_other = vf_bool (); dbus_bool_t ok;
    cfg_max_incomplete = vf_range (1, 1000); conns.n_incomplete = i0 = vf_range (0, 999); VF_ASSUME (i0 < cfg_max_incomplete);
    if (had_other) { VF_ASSUME (i0 >= 1); l0.data = cnp[0]; l0.next = l0.prev = &l0; conns.incomplete = &l0; }     /* one older incomplete connection materialised, the others are only counted */
    vf_now_set = 1; vf_now_s = 1000; vf_now_us = 0; cdp[0]->connection_tv_sec = 1000; cdp[0]->connection_tv_usec = 0; conns.expire_timeout = &et;
    str_fail_at = vf_range (0, 10); str_calls = 0; lsm_fail = vf_range (0, 2); n_watch_checks = 0; nc.data = 0; nc.refs = 1;
    connection_data_slot = 0; blocks0 = vf_live_blocks;
#ifdef KOOM
    vf_alloc_calls = 0; vf_oom_at = KOOM;      /* the KOOM-th dbus_malloc of the step fails (1 = the per-connection block itself) */
#endif
    ok = bus_connections_setup_connection (&conns, &nc);
    VF_ASSERT (conns.n_incomplete <= cfg_max_incomplete, "the number of incomplete connections never exceeds max_incomplete_connections");
    if (ok)
      {
        DBusList *last = conns.incomplete ? conns.incomplete->prev : 0;
        VF_ASSERT (str_fail_at == 0 || str_calls < str_fail_at, "success only when no step failed");
        VF_ASSERT (lsm_fail == 0, "success only when no security module refused");
        VF_ASSERT (conns.n_incomplete == i0 + 1 && nc.refs == 2 && nc.data != 0, "an accepted connection is counted once and referenced once");
        VF_ASSERT (last != 0 && last->data == &nc && (!had_other || conns.incomplete == &l0), "and appended to the incomplete list behind the older ones (oldest first: the expiry scan relies on it)");
        VF_ASSERT (n_watch_checks >= 1, "the accept gate is re-evaluated after the count rose");
        VF_ASSERT (n_dispatch_added == 1 && n_watch_fn_set && n_timeout_fn_set && n_timeouts_live == 1 && n_loop_timeouts == 1 && !pfd_tmo.enabled, "registered for dispatch once; pending-fd timeout created disabled");
        VF_ASSERT (closed_mask == 0 && n_closed == 0, "nobody is expired by accepting a connection at the same instant");
        VF_WITNESS_OPT ("connection accepted");
      }
    else
      {
        VF_ASSERT ((str_fail_at > 0 && str_calls >= str_fail_at) || lsm_fail != 0 || vf_oom_hit, "failure only when a step failed or a security module refused");
        VF_ASSERT (conns.n_incomplete == i0 && nc.refs == 1 && nc.data == 0, "a refused connection is not counted, not referenced and carries no bus data");
        VF_ASSERT (conns.incomplete == (had_other ? &l0 : 0) && (!had_other || (l0.next == &l0 && l0.prev == &l0)), "the incomplete list is as before");
        VF_ASSERT (!n_watch_fn_set && !n_timeout_fn_set && n_timeouts_live == 0, "callbacks are cleared and the pending-fd timeout is released");
        VF_ASSERT (vf_live_blocks == blocks0, "every block acquired for the connection is freed again (the per-connection data exactly once)");
        VF_WITNESS_OPT ("connection refused");
      }
  }
#elif OP == 12
  {
    /* C18: a monitor sees every message the bus originates, deliverable or not — the error reply for a failed call is captured for the monitors even when
     * the caller has already gone away (its copy is then dropped, the monitors' copies are not). */
    DBusError e; dbus_bool_t ok; static DBusList mn0; int s0 = 0, s1 = 0, caller_connected = vf_bool ();
    mn0.data = cnp[1]; mn0.next = mn0.prev = &mn0; conns.monitors = &mn0; conns.monitor_matchmaker = (BusMatchmaker *) &tok_mon_mm;
    mon_select[0] = 0; mon_select[1] = 1; mon_select[2] = 0;
    cnp[0]->connected = caller_connected;
    e.name = DBUS_ERROR_SERVICE_UNKNOWN; e.message = "x"; msg.sender = cname[0];
    tr = bus_transaction_new ((BusContext *) &conns); VF_ASSUME (tr != 0);
    ok = bus_transaction_send_error_reply (tr, cnp[0], &e, &msg);
    VF_ASSERT (ok, "queuing the error reply succeeds when memory is available");
    bus_transaction_execute_and_free (tr);
    for (i = 0; i < NSENT; i++) if (i < n_sent) { if (sent[i].conn == 1) s1++; else if (sent[i].conn == 0) s0++; if (policy_allows_driver_msg) VF_ASSERT (sent[i].m->type == DBUS_MESSAGE_TYPE_ERROR && sent[i].m->reply_serial == msg.serial, "only the error is sent"); }
    if (policy_allows_driver_msg)
      {
        VF_ASSERT (s1 == 1, "the monitor gets exactly one copy of the bus's error reply, whether or not the caller is still there");
        VF_ASSERT (s0 == (caller_connected ? 1 : 0) && n_sent == s0 + s1, "the caller gets it only while connected, nobody else gets anything");
        if (!caller_connected) VF_WITNESS_OPT ("error for a vanished caller still shown to the monitor");
      }
    else VF_ASSERT (s1 >= 1 && s0 == 0, "a policy-refused driver message is still shown to the monitor (followed by the refusal) and not delivered");
  }
#elif OP == 4
  {
    /* C05 (error replies) / C03.d: bus_transaction_send_error_reply through the real send path */
    DBusError e; dbus_bool_t ok; int dst = vf_range (0, NC - 1);
    e.name = DBUS_ERROR_NAME_HAS_NO_OWNER; e.message = "x";
    msg.sender = cname[dst];
    tr = bus_transaction_new ((BusContext *) &conns); VF_ASSUME (tr != 0);
    ok = bus_transaction_send_error_reply (tr, cnp[dst], &e, &msg);
    VF_ASSERT (ok, "queuing the error reply succeeds when memory is available");
    bus_transaction_execute_and_free (tr);
    if (policy_allows_driver_msg)
      {
        VF_ASSERT (n_sent == 1 && sent[0].conn == dst, "exactly one error reply goes out, to the sender of the failed message");
        VF_ASSERT (sent[0].m->type == DBUS_MESSAGE_TYPE_ERROR && sent[0].m->error_name == e.name && sent[0].m->reply_serial == msg.serial, "it is the error, carrying the call's serial");
        VF_ASSERT (sent[0].m->sender && strcmp (sent[0].m->sender, DBUS_SERVICE_DBUS) == 0, "bus-originated messages carry org.freedesktop.DBus as sender");
        VF_WITNESS ("error reply delivered");
      }
    else VF_ASSERT (n_sent == 0, "a policy-refused driver message is dropped");
  }
#else
  {
#if P > 0
    int k = vf_range (0, P - 1); dbus_bool_t ok; DBusList *link = ln[0];
    for (i = 0; i < k; i++) link = link->next;
    VF_ASSUME (link == ln[k]);
    ok = bus_pending_reply_expired (&elist, link, &conns);
    VF_ASSERT (ok, "expiry succeeds when memory is available");
    VF_ASSERT (_dbus_list_get_length (&elist.items) == P - 1, "the expired slot is removed");
    for (i = 0; i < P; i++) if (i != k) VF_ASSERT (bus_expire_list_contains_item (&elist, &pr[i]->expire_item), "other slots stay");
    if (policy_allows_driver_msg)
      {
        VF_ASSERT (n_sent == 1 && sent[0].conn == t[k].get, "exactly one message is sent, to the caller");
        VF_ASSERT (sent[0].m->type == DBUS_MESSAGE_TYPE_ERROR && sent[0].m->error_name && strcmp (sent[0].m->error_name, DBUS_ERROR_NO_REPLY) == 0, "it is a NoReply error");
        VF_ASSERT (sent[0].m->reply_serial == t[k].serial, "carrying the call's serial");
        VF_ASSERT (sent[0].m->sender && strcmp (sent[0].m->sender, DBUS_SERVICE_DBUS) == 0, "bus-originated messages carry org.freedesktop.DBus as sender");
        VF_ASSERT (sent[0].m->dest == cname[t[k].get], "addressed to the caller's unique name");
        VF_WITNESS ("NoReply delivered");
      }
    else
      { VF_ASSERT (n_sent == 0, "a policy-refused driver message is silently dropped"); VF_WITNESS ("NoReply refused by policy"); }
#endif
  }
#endif
  for (i = 0; i < NC; i++) VF_ASSERT (cdp[i]->transaction_messages == 0, "no staged message is left behind on any connection");
  VF_WITNESS ("end of harness reached");
}
