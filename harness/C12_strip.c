/* C12 (strip unknown fields) / C03 — the real _dbus_header_remove_unknown_fields
 * on a wire-format header of concrete shape (two fields: <code,y> and <code,u>,
 * byte order symbolic) whose field codes and values are arbitrary: afterwards
 * the header bytes are a well-formed value of the header signature (independent
 * decoder), exactly the fields with a code above the last known one are gone,
 * the remaining fields and the fixed part are unchanged, and the header length
 * is a multiple of 8 with zero padding. */
#include <config.h>
#include <dbus/dbus-internals.h>
#include <dbus/dbus-string.h>
#define DBUS_CAN_USE_DBUS_STRING_PRIVATE 1
#include <dbus/dbus-string-private.h>
#include <dbus/dbus-marshal-header.h>
#include "vf.h"
#include "pool_strings.h"
#include "ref_marshal.h"
#define CAP 72
/* field codes are part of the shape (R4): symbolic codes make the variant signatures read back from the edited
 * buffer symbolic and the type-reader vtables fan out (no verdict in 600 s) */
#ifndef ORDER
#define ORDER 'l'
#endif
#ifndef CODE_A
#define CODE_A 200
#endif
#ifndef CODE_B
#define CODE_B 6
#endif
static void init_inplace (DBusString *s, unsigned char *buf, int len, int cap)
{
  DBusRealString *r = (DBusRealString *) s;
  r->str = buf; r->len = len; r->allocated = cap; r->constant = 0; r->locked = 0; r->valid = 1; r->align_offset = 0;
}
static void put32 (unsigned char *p, unsigned v, int order)
{ int i; for (i = 0; i < 4; i++) p[i] = (unsigned char) (order == 'l' ? v >> (8 * i) : v >> (8 * (3 - i))); }
void harness (void)
{
  unsigned char buf[CAP] __attribute__ ((aligned (8)));
  DBusHeader h; struct refdec r; int order = ORDER, i, keepA, keepB, len, nfields = 0;
  unsigned char cA = CODE_A, cB = CODE_B, vA = vf_u8 (), type = (unsigned char) vf_range (1, 4), flags = vf_u8 ();
  unsigned vB = vf_u32 (), serial = vf_u32 (), body_len = vf_u32 ();
  dbus_bool_t ok;
  for (i = 0; i < CAP; i++) buf[i] = 0;
  buf[0] = (unsigned char) order; buf[1] = type; buf[2] = flags; buf[3] = 1;
  put32 (buf + 4, body_len, order); put32 (buf + 8, serial, order); put32 (buf + 12, 16, order);
  buf[16] = cA; buf[17] = 1; buf[18] = 'y'; buf[19] = 0; buf[20] = vA;                 /* field A, padded to 24 */
  buf[24] = cB; buf[25] = 1; buf[26] = 'u'; buf[27] = 0; put32 (buf + 28, vB, order);     /* field B ends at 32 */
  init_inplace (&h.data, buf, 32, CAP);
  for (i = 0; i <= DBUS_HEADER_FIELD_LAST; i++) h.fields[i].value_pos = _DBUS_HEADER_FIELD_VALUE_UNKNOWN;
  h.padding = 0; h.byte_order = order;
  keepA = cA <= DBUS_HEADER_FIELD_LAST; keepB = cB <= DBUS_HEADER_FIELD_LAST;

  ok = _dbus_header_remove_unknown_fields (&h);
  VF_ASSERT (ok, "stripping succeeds when no reallocation is needed");
  len = _dbus_string_get_length (&h.data);
  VF_ASSERT (len % 8 == 0 && len >= 16, "header length stays a multiple of 8");
  VF_ASSERT (buf[0] == order && buf[1] == type && buf[2] == flags && buf[3] == 1, "byte order, type, flags, version unchanged");
  r.d = buf; r.len = len; r.order = order; r.pos = 0; r.nvals = 0;
  VF_ASSERT (ref_rd (&r, 4, 4) == body_len && ref_rd (&r, 8, 4) == serial, "body length and serial unchanged");
  VF_ASSERT (ref_body_valid (&r, (const unsigned char *) "yyyyuua(yv)", 11, buf, len - h.padding, order), "the edited header is a well-formed value of the header signature");
  for (i = len - h.padding; i < len; i++) VF_ASSERT (buf[i] == 0, "padding between header and body is zero");
  /* decoded value log: y y y y u u a ( y v y ) ( y v u ) A  -> pick the field codes and values */
  { int k, seenA = 0, seenB = 0;
    for (k = 0; k < REF_MAXVALS && k < r.nvals; k++)
      if (r.vals[k].type == '(')
        {
          unsigned code = (unsigned) r.vals[k + 1].u; nfields++;
          VF_ASSERT (code <= DBUS_HEADER_FIELD_LAST, "no field with an unknown code survives");
          if (code == cA && keepA && !seenA && r.vals[k + 3].type == 'y') { seenA = 1; VF_ASSERT (r.vals[k + 3].u == vA, "a kept field keeps its value"); }
          else if (code == cB && keepB && !seenB && r.vals[k + 3].type == 'u') { seenB = 1; VF_ASSERT (r.vals[k + 3].u == vB, "a kept field keeps its value"); }
          else VF_ASSERT (0, "a field appeared that was not there");
        }
    VF_ASSERT (seenA == keepA && seenB == keepB && nfields == keepA + keepB, "exactly the known fields remain");
  }
  VF_WITNESS ("end of harness reached");
}
