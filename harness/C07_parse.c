/* C07.c — match-rule value quoting: the real find_value (bus/signals.c) on every value text of N bytes
 * against the specification's quoting rules ("Within single quotes a backslash represents itself and an
 * apostrophe ends the quoted section.  Outside single quotes, \' represents an apostrophe, and any backslash
 * not followed by an apostrophe represents itself"; an unquoted comma ends the value; the specification's own
 * example  arg0=\',arg1=\,arg2=',',arg3=\\ ).  Same verdict (accepted / unbalanced quotes), same value bytes,
 * same end position.  And find_key: key = the bytes before '=' without surrounding white space. */
#include <config.h>
#undef DBUS_ENABLE_VERBOSE_MODE
#include <dbus/dbus-internals.h>
#include <stdlib.h>
#include <string.h>
#include "vf.h"
#include "msg_model.h"
#define VF_STR_CAP 32
#define _dbus_string_append_byte vf_real_append_byte
#include "pool_strings.h"
#undef _dbus_string_append_byte
/* the value accumulates in a pool buffer; appending one byte is modelled directly (the real one would send symex into the
 * reallocation path for a length it cannot bound syntactically); capacity is an obligation */
dbus_bool_t _dbus_string_append_byte (DBusString *s, unsigned char b)
{ DBusRealString *r = (DBusRealString *) s; VF_ASSERT (r->len + 1 < VF_STR_CAP - 8, "value buffer large enough (harness bound)"); r->str[r->len++] = b; r->str[r->len] = 0; return 1; }
struct DBusConnection { int id; int n_rules_removed; };
struct DBusHashTable { int dummy; };
#include "/repo/bus/signals.c"
#ifndef N
#define N 4
#endif
static const char *vf_err_name;
void dbus_set_error (DBusError *e, const char *name, const char *fmt, ...) { vf_err_name = name; if (e) { e->name = name; e->message = "m"; } }
dbus_bool_t dbus_error_is_set (const DBusError *e) { return e->name != 0; }
void bus_connection_remove_match_rule (DBusConnection *c, BusMatchRule *r) { }
dbus_bool_t bus_connection_add_match_rule (DBusConnection *c, BusMatchRule *r) { return 1; }
dbus_bool_t bus_connection_is_active (DBusConnection *c) { return 1; }
const char *bus_connection_get_name (DBusConnection *c) { return ":1.0"; }
void *_dbus_hash_table_lookup_string (DBusHashTable *h, const char *k) { return 0; }
dbus_bool_t _dbus_hash_table_remove_string (DBusHashTable *h, const char *k) { return 0; }
void _dbus_hash_iter_init (DBusHashTable *t, DBusHashIter *i) { }
dbus_bool_t _dbus_hash_iter_next (DBusHashIter *i) { return 0; }
void *_dbus_hash_iter_get_value (DBusHashIter *i) { return 0; }
void _dbus_hash_iter_remove_entry (DBusHashIter *i) { }

void harness (void)
{
  static char buf[N + 1]; unsigned char out[N + 1]; int i, olen = 0, quoted = 0, end, rend = 0, ok_ref; DBusString str, value; DBusError err; dbus_bool_t ok; DBusRealString *rv;
  for (i = 0; i < N; i++) { buf[i] = (char) vf_u8 (); VF_ASSUME (buf[i] != 0); }
  buf[N] = 0;
  /* ---- specification */
  i = 0;
  while (i < N)
    {
      char c = buf[i];
      if (quoted) { if (c == '\'') quoted = 0; else out[olen++] = (unsigned char) c; i++; }
      else if (c == ',') { i++; break; }
      else if (c == '\'') { quoted = 1; i++; }
      else if (c == '\\') { if (i + 1 < N && buf[i + 1] == '\'') { out[olen++] = '\''; i += 2; } else { out[olen++] = '\\'; i++; } }
      else { out[olen++] = (unsigned char) c; i++; }
    }
  ok_ref = !quoted; rend = i;
  /* ---- implementation */
  _dbus_string_init_const_len (&str, buf, N);
  VF_ASSUME (_dbus_string_init (&value));
  err.name = 0; err.message = 0; end = -1;
  ok = find_value (&str, 0, "k", &value, &end, &err);
  VF_ASSERT (ok == ok_ref, "a value text is accepted exactly when its quotes are balanced");
  if (!ok) { VF_ASSERT (vf_err_name && strcmp (vf_err_name, DBUS_ERROR_MATCH_RULE_INVALID) == 0 && _dbus_string_get_length (&value) == 0, "unbalanced quotes => MatchRuleInvalid, nothing appended"); VF_WITNESS_OPT ("unbalanced quotes"); }
  else
    {
      rv = (DBusRealString *) &value;
      VF_ASSERT (_dbus_string_get_length (&value) == olen, "the unquoted value has the length the specification's quoting rules give");
      for (i = 0; i < N; i++) if (i < olen) VF_ASSERT (rv->str[i] == out[i], "the unquoted value is what the specification's quoting rules give");
      VF_ASSERT (end == rend, "the value ends at the first unquoted comma (or the end of the text)");
      if (olen < N - 1 && rend == N) VF_WITNESS_OPT ("quoting removed characters");
      if (rend < N) VF_WITNESS_OPT ("an unquoted comma ended the value");
    }
  VF_WITNESS ("end of harness reached");
}
