/* C13 (max_incomplete_connections) — the accept gate: the real bus_context_check_all_watches (bus/bus.c) as one inductive
 * step.  Invariant J: the listening watches are enabled exactly while the number of connections that have not yet said
 * Hello is below max_incomplete_connections, and that number never exceeds the limit.
 * Events (each followed by the real gate function, as the real callers do — shown for completion and teardown by the
 * C13/C10 jobs `connection.complete`, `connection.teardown`; bus_connections_setup_connection increments and then calls it):
 *   accept  — possible only while the watches are enabled (a disabled watch is not polled): n + 1
 *   drop    — an incomplete connection completes, is expired or disconnects: n - 1
 * Post: J again; every listening server is toggled exactly once, with the new state, exactly when the state changed. */
#include <config.h>
#undef DBUS_ENABLE_VERBOSE_MODE
#include <dbus/dbus-internals.h>
#include <stdlib.h>
#include <string.h>
#include "vf.h"
#include "/repo/bus/bus.c"
#ifndef NSRV
#define NSRV 2
#endif
static int n_incomplete, toggles[3], toggled_to[3], srv_tok[3], foreign_toggle;
int bus_connections_get_n_incomplete (BusConnections *c) { return n_incomplete; }
void _dbus_server_toggle_all_watches (DBusServer *s, dbus_bool_t enabled)
{ int k, hit = 0; for (k = 0; k < 3; k++) if (s == (DBusServer *) &srv_tok[k]) { toggles[k]++; toggled_to[k] = enabled; hit = 1; } if (!hit) foreign_toggle = 1; }
static BusContext ctx;
void harness (void)
{
  static DBusList ln[3]; int max = vf_range (1, 100000), n0 = vf_range (0, 100000), ev = vf_bool (), k, en0, en1;
  VF_ASSUME (n0 <= max);                                   /* J, part 1 */
  en0 = n0 < max;                                          /* J, part 2 */
  ctx.refcount = 1; ctx.limits.max_incomplete_connections = max; ctx.watches_enabled = en0;
  for (k = 0; k < NSRV; k++) { ln[k].data = &srv_tok[k]; ln[k].next = &ln[(k + 1) % NSRV]; ln[k].prev = &ln[(k + NSRV - 1) % NSRV]; }
  ctx.servers = NSRV ? &ln[0] : 0;
  if (ev) { VF_ASSUME (en0); n_incomplete = n0 + 1; }       /* accept: only through an enabled watch */
  else { VF_ASSUME (n0 > 0); n_incomplete = n0 - 1; }       /* an incomplete connection goes away or completes */
  bus_context_check_all_watches (&ctx);
  en1 = n_incomplete < max;
  VF_ASSERT (n_incomplete <= max, "the number of incomplete connections never exceeds max_incomplete_connections");
  VF_ASSERT ((ctx.watches_enabled != 0) == en1, "the bus listens for new connections exactly while the number of incomplete connections is below the limit");
  VF_ASSERT (!foreign_toggle, "only the context's own servers are toggled");
  for (k = 0; k < 3; k++)
    if (k < NSRV) { VF_ASSERT (toggles[k] == (en0 != en1 ? 1 : 0), "every listening server is toggled exactly once when the gate changes state, and left alone otherwise"); if (toggles[k]) VF_ASSERT ((toggled_to[k] != 0) == en1, "to the new state"); }
    else VF_ASSERT (toggles[k] == 0, "nothing else is toggled");
  if (ev && !en1) VF_WITNESS_OPT ("the gate closed at the limit");
  if (!ev && !en0 && en1) VF_WITNESS_OPT ("the gate reopened below the limit");
  VF_WITNESS ("end of harness reached");
}
