/* C01.d (mandatory header fields) — the real check_mandatory_fields (dbus-marshal-header.c) on an arbitrary message type and an arbitrary
 * presence pattern of the ten known header fields: the verdict is VALID exactly when the fields the specification makes mandatory for that
 * message type are present (METHOD_CALL: PATH, MEMBER; SIGNAL: PATH, INTERFACE, MEMBER; ERROR: ERROR_NAME, REPLY_SERIAL; METHOD_RETURN:
 * REPLY_SERIAL; unknown types: none). */
#include <config.h>
#undef DBUS_ENABLE_VERBOSE_MODE
#include <dbus/dbus-internals.h>
#include "vf.h"
#define VF_STR_CAP 32
#include "pool_strings.h"
#include "/repo/dbus/dbus-marshal-header.c"
void harness (void)
{
  DBusHeader h; DBusRealString *r; int i, present[DBUS_HEADER_FIELD_LAST + 1], type = vf_range (1, 255) /* type 0 is refused earlier by _dbus_header_load */, want; DBusValidity v;
  VF_ASSUME (_dbus_string_init (&h.data)); r = (DBusRealString *) &h.data;
  r->str[0] = 'l'; r->str[1] = (unsigned char) type; r->str[2] = 0; r->str[3] = 1; r->len = 16; r->str[16] = 0; h.padding = 0; h.byte_order = 'l';
  for (i = 0; i <= DBUS_HEADER_FIELD_LAST; i++)
    { present[i] = vf_bool (); h.fields[i].value_pos = present[i] ? vf_range (16, 1000) : (vf_bool () ? _DBUS_HEADER_FIELD_VALUE_NONEXISTENT : _DBUS_HEADER_FIELD_VALUE_UNKNOWN); }
  v = check_mandatory_fields (&h);
#define P(f) present[DBUS_HEADER_FIELD_##f]
  want = type == DBUS_MESSAGE_TYPE_METHOD_CALL ? (P (PATH) && P (MEMBER))
       : type == DBUS_MESSAGE_TYPE_SIGNAL ? (P (PATH) && P (INTERFACE) && P (MEMBER))
       : type == DBUS_MESSAGE_TYPE_ERROR ? (P (ERROR_NAME) && P (REPLY_SERIAL))
       : type == DBUS_MESSAGE_TYPE_METHOD_RETURN ? P (REPLY_SERIAL) : 1;
  VF_ASSERT ((v == DBUS_VALID) == (want != 0), "a header passes the mandatory-field check exactly when the fields the specification requires for its message type are present");
  if (v == DBUS_VALID && type == DBUS_MESSAGE_TYPE_SIGNAL) VF_WITNESS_OPT ("a complete signal header");
  if (v != DBUS_VALID) VF_WITNESS ("a header with a missing mandatory field");
  VF_WITNESS ("end of harness reached");
}
