/* C02.a — leaf marshalling round trip: the real _dbus_marshal_write_basic
 * appends one value of basic type T (concrete per job) with arbitrary bits at an
 * arbitrary insert position 0..7 of a fixed-capacity DBusString in either byte
 * order; then: the padding up to T's alignment is zero, the bytes equal the
 * specification's encoding (independent byte-wise reader), the end position is
 * right, and the real _dbus_marshal_read_basic returns exactly the value written
 * (for strings: a pointer into the buffer at the right place with the right
 * bytes and terminating NUL).  Nothing before the insert position changes. */
#include <config.h>
#include <dbus/dbus-internals.h>
#include <dbus/dbus-string.h>
#define DBUS_CAN_USE_DBUS_STRING_PRIVATE 1
#include <dbus/dbus-string-private.h>
#include <dbus/dbus-marshal-basic.h>
#include "vf.h"
#include "ref_marshal.h"
#ifndef T
#define T 'u'
#endif
#ifndef CAP
#define CAP 24
#endif
static void init_inplace (DBusString *s, unsigned char *buf, int len, int cap)
{
  DBusRealString *r = (DBusRealString *) s;
  r->str = buf; r->len = len; r->allocated = cap; r->constant = 0; r->locked = 0; r->valid = 1; r->align_offset = 0;
}
void harness (void)
{
  unsigned char buf[CAP] __attribute__ ((aligned (8))), before[8];
  DBusString str; struct refdec r; int p = vf_range (0, 7), order = vf_bool () ? 'l' : 'B', i, pos_after = -1, a, at, newpos = -1;
  DBusBasicValue v, out; char sval[6]; const char *sp = sval; int slen = 0;
  dbus_bool_t ok;
  for (i = 0; i < CAP; i++) buf[i] = 0;
  for (i = 0; i < 8; i++) { buf[i] = vf_u8 (); before[i] = buf[i]; }
  buf[p] = 0;                                  /* DBusString invariant: NUL after the data */
  init_inplace (&str, buf, p, CAP);
  v.u64 = vf_u64 ();
  if (T == 's' || T == 'o' || T == 'g')
    {
      slen = vf_range (0, 4);
      for (i = 0; i < 5; i++) { sval[i] = (char) vf_u8 (); if (i < slen) VF_ASSUME (sval[i] != 0); }
      sval[slen] = 0;
      v.str = (char *) sp;
    }
  if (T == 'b') VF_ASSUME (v.u32 <= 1);
  ok = _dbus_marshal_write_basic (&str, p, T, &v, order, &pos_after);
  VF_ASSERT (ok, "writing into a string with spare capacity succeeds");
  a = ref_type_alignment (T);
  at = (p + a - 1) / a * a;
  for (i = 0; i < p; i++) VF_ASSERT (buf[i] == before[i], "bytes before the insert position are untouched");
  for (i = p; i < at; i++) VF_ASSERT (buf[i] == 0, "alignment padding is zero");
  r.d = buf; r.len = _dbus_string_get_length (&str); r.order = order; r.pos = at; r.nvals = 0;
  if (T == 's' || T == 'o')
    {
      VF_ASSERT (r.len == at + 4 + slen + 1 && pos_after == r.len, "length word, bytes and NUL are appended");
      VF_ASSERT (ref_rd (&r, at, 4) == (unsigned long long) slen && buf[at + 4 + slen] == 0, "string length and terminating NUL");
      for (i = 0; i < 4; i++) if (i < slen) VF_ASSERT (buf[at + 4 + i] == (unsigned char) sval[i], "string bytes");
    }
  else if (T == 'g')
    {
      VF_ASSERT (r.len == p + 1 + slen + 1 && pos_after == r.len && buf[p] == slen && buf[p + 1 + slen] == 0, "signature: length byte, bytes, NUL");
      for (i = 0; i < 4; i++) if (i < slen) VF_ASSERT (buf[p + 1 + i] == (unsigned char) sval[i], "signature bytes");
    }
  else
    {
      unsigned long long want = a == 8 ? v.u64 : a == 4 ? v.u32 : a == 2 ? v.u16 : v.byt;
      VF_ASSERT (r.len == at + a && pos_after == r.len, "exactly the value's bytes are appended after the padding");
      VF_ASSERT (ref_rd (&r, at, a) == want, "the bytes are the specification's encoding of the value in the chosen byte order");
    }
  /* read back through the library */
  out.u64 = 0;
  _dbus_marshal_read_basic (&str, p, T, &out, order, &newpos);
  VF_ASSERT (newpos == pos_after, "the reader consumes exactly what the writer produced");
  if (T == 's' || T == 'o') { VF_ASSERT (out.str == (char *) buf + at + 4, "string values are returned in place"); }
  else if (T == 'g') { VF_ASSERT (out.str == (char *) buf + p + 1, "signature values are returned in place"); }
  else if (a == 8) VF_ASSERT (out.u64 == v.u64, "read back equals written (64-bit)");
  else if (a == 4) VF_ASSERT (out.u32 == v.u32, "read back equals written (32-bit)");
  else if (a == 2) VF_ASSERT (out.u16 == v.u16, "read back equals written (16-bit)");
  else VF_ASSERT (out.byt == v.byt, "read back equals written (byte)");
  if (at > p) VF_WITNESS_OPT ("padding was needed");
  VF_WITNESS ("end of harness reached");
}
