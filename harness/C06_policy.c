/* C06.a/b/c — bus_client_policy_check_can_send / _can_receive / _can_own on a
 * rule list of concrete length K whose every attribute is symbolic, against
 * the documented "last matching rule decides, default deny" evaluation.
 * MODE: 0 send, 1 receive, 2 own.  OPT=1: additionally run
 * bus_client_policy_optimize first (C06.d) — the decision must not change. */
#include "/repo/bus/policy.c"
#include "vf.h"
#include "msg_model.h"
#include "ref_policy.h"

#ifndef K
#define K 2
#endif
#ifndef MODE
#define MODE 0
#endif
#if K > 0
#define VF_WITNESS_K(l) VF_WITNESS (l)
#else
#define VF_WITNESS_K(l) do { } while (0)
#endif
#define SL 2   /* rule/message string length bound */

struct DBusConnection { int id; };
static struct DBusConnection conn_recv, conn_send, conn_other;
static struct ref_rule ref[4];
static BusPolicyRule rule[4];
static char rs[4][5][SL + 1];

/* environment: registry / ownership questions answered by per-rule symbolic booleans */
static int which_rule (const char *name)
{
  int i;
  for (i = 0; i < K; i++)
    if (ref[i].peer == name) return i;
  VF_ASSERT (0, "registry asked about a name that is not a rule's destination/origin");
  return 0;
}
BusService *bus_registry_lookup (BusRegistry *r, const DBusString *s)
{
  int w = which_rule (_dbus_string_get_const_data (s));
  return ref[w].svc_exists ? (BusService *) &ref[w] : 0;
}
dbus_bool_t bus_service_owner_in_queue (BusService *s, DBusConnection *c)
{
  struct ref_rule *r = (struct ref_rule *) s;
#if MODE == 0
  VF_ASSERT (c == &conn_recv, "send rule asks about the receiver's ownership");
#else
  VF_ASSERT (c == &conn_send, "receive rule asks about the sender's ownership");
#endif
  return r->conn_in_queue;
}
/* the service's primary owner: the connection in question iff conn_is_primary */
DBusConnection *bus_service_get_primary_owners_connection (BusService *s)
{
  struct ref_rule *r = (struct ref_rule *) s;
#if MODE == 0
  return r->conn_is_primary ? &conn_recv : &conn_other;
#else
  return r->conn_is_primary ? &conn_send : &conn_other;
#endif
}
dbus_bool_t bus_connection_is_queued_owner_by_prefix (DBusConnection *c, const char *p)
{
  VF_ASSERT (c == &conn_recv, "prefix ownership asked about the receiver");
  return ref[which_rule (p)].conn_owns_by_prefix;
}

static char *symstr2 (char *b)
{
  if (vf_bool ()) return 0;
  b[0] = (char) vf_u8 (); b[1] = (char) vf_u8 (); b[2] = 0;
  return b;
}

static void make_rule (int i)
{
  BusPolicyRule *r = &rule[i];
  struct ref_rule *q = &ref[i];
  int t = vf_range (0, 2);
  r->refcount = 1;
  r->type = t == 0 ? BUS_POLICY_RULE_SEND : t == 1 ? BUS_POLICY_RULE_RECEIVE : BUS_POLICY_RULE_OWN;
  r->allow = vf_bool ();
  q->kind = t; q->allow = r->allow;
  q->svc_exists = vf_bool (); q->conn_in_queue = vf_bool (); q->conn_owns_by_prefix = vf_bool ();
  q->conn_is_primary = vf_bool (); VF_ASSUME (!q->conn_is_primary || q->conn_in_queue);   /* the primary owner is in the queue */
  q->mtype = 0; q->path = q->iface = q->member = q->err = q->peer = 0; q->minf = 0; q->maxf = 0; q->eaves = q->reqrep = q->bcast = q->isprefix = 0;
  if (t == 0)
    {
      r->d.send.message_type = vf_range (0, 4);
      r->d.send.path = symstr2 (rs[i][0]); r->d.send.interface = symstr2 (rs[i][1]);
      r->d.send.member = symstr2 (rs[i][2]); r->d.send.error = symstr2 (rs[i][3]);
      r->d.send.destination = symstr2 (rs[i][4]);
      r->d.send.min_fds = vf_u32 (); r->d.send.max_fds = vf_u32 ();
      r->d.send.eavesdrop = vf_bool (); r->d.send.requested_reply = vf_bool (); r->d.send.log = vf_bool ();
      r->d.send.broadcast = (unsigned) vf_range (0, 2); r->d.send.destination_is_prefix = vf_bool ();
      q->mtype = r->d.send.message_type; q->path = r->d.send.path; q->iface = r->d.send.interface; q->member = r->d.send.member;
      q->err = r->d.send.error; q->peer = r->d.send.destination; q->minf = r->d.send.min_fds; q->maxf = r->d.send.max_fds;
      q->eaves = r->d.send.eavesdrop; q->reqrep = r->d.send.requested_reply; q->bcast = r->d.send.broadcast; q->isprefix = r->d.send.destination_is_prefix;
    }
  else if (t == 1)
    {
      r->d.receive.message_type = vf_range (0, 4);
      r->d.receive.path = symstr2 (rs[i][0]); r->d.receive.interface = symstr2 (rs[i][1]);
      r->d.receive.member = symstr2 (rs[i][2]); r->d.receive.error = symstr2 (rs[i][3]);
      r->d.receive.origin = symstr2 (rs[i][4]);
      r->d.receive.min_fds = vf_u32 (); r->d.receive.max_fds = vf_u32 ();
      r->d.receive.eavesdrop = vf_bool (); r->d.receive.requested_reply = vf_bool ();
      q->mtype = r->d.receive.message_type; q->path = r->d.receive.path; q->iface = r->d.receive.interface; q->member = r->d.receive.member;
      q->err = r->d.receive.error; q->peer = r->d.receive.origin; q->minf = r->d.receive.min_fds; q->maxf = r->d.receive.max_fds;
      q->eaves = r->d.receive.eavesdrop; q->reqrep = r->d.receive.requested_reply;
    }
  else
    {
      r->d.own.service_name = symstr2 (rs[i][4]);
      r->d.own.prefix = vf_bool ();
      VF_ASSUME (!(r->d.own.prefix && r->d.own.service_name == 0));   /* the config parser never builds own_prefix without a name */
      q->peer = r->d.own.service_name; q->isprefix = r->d.own.prefix;
    }
}

void harness (void)
{
  static DBusList ln0, ln1, ln2, ln3;
  DBusList *ll[4] = { &ln0, &ln1, &ln2, &ln3 };
  static BusClientPolicy pol;
  static struct DBusMessage msg;
  static char ms[6][VF_STRMAX + 1];
  struct ref_msg rm;
  int i, want = 0, tg = 0;
  dbus_bool_t got;
  dbus_int32_t toggles = -1;
  dbus_bool_t log = FALSE;
  dbus_bool_t reqrep = vf_bool ();

  vf_msg_symbolic (&msg, ms);
  rm.type = msg.type; rm.reply_serial = msg.reply_serial; rm.nfds = msg.n_fds;
  rm.path = msg.path; rm.iface = msg.iface; rm.member = msg.member; rm.err = msg.error_name; rm.dest = msg.dest; rm.sender = msg.sender;

  for (i = 0; i < K; i++)
    {
      make_rule (i);
      ll[i]->data = &rule[i];
      ll[i]->next = ll[(i + 1) % K];
      ll[i]->prev = ll[(i + K - 1) % K];
    }
  pol.refcount = 1;
  pol.rules = K ? &ln0 : 0;

#if MODE == 0
  {
    dbus_bool_t have_recv = vf_bool ();
    got = bus_client_policy_check_can_send (&pol, (BusRegistry *) &conn_other, reqrep, have_recv ? &conn_recv : 0, &msg, &toggles, &log);
    for (i = 0; i < K; i++)
      if (ref_send_match (&ref[i], &rm, reqrep, have_recv, DBUS_MAXIMUM_MESSAGE_UNIX_FDS)) { want = ref[i].allow; tg++; }
    VF_ASSERT ((got != 0) == (want != 0), "send decision equals last-matching-rule evaluation");
    VF_ASSERT (toggles == tg, "number of matching send rules");
    if (K > 0 && got && tg == K) VF_WITNESS_K ("every rule matches and the message is allowed");
    if (!got && tg > 0) VF_WITNESS_K ("a matching deny decides");
  }
#elif MODE == 1
  {
    dbus_bool_t have_sender = vf_bool ();
    int same = vf_bool ();   /* proposed recipient is the addressed one? */
    int eaves = (!same && msg.dest != 0);
    got = bus_client_policy_check_can_receive (&pol, (BusRegistry *) &conn_other, reqrep, have_sender ? &conn_send : 0,
                                               same ? &conn_recv : &conn_other, &conn_recv, &msg, &toggles);
    for (i = 0; i < K; i++)
      if (ref_recv_match (&ref[i], &rm, reqrep, have_sender, eaves, DBUS_MAXIMUM_MESSAGE_UNIX_FDS)) { want = ref[i].allow; tg++; }
    VF_ASSERT ((got != 0) == (want != 0), "receive decision equals last-matching-rule evaluation");
    VF_ASSERT (toggles == tg, "number of matching receive rules");
    if (K > 0 && got && tg == K) VF_WITNESS_K ("every rule matches and the message is allowed");
    if (!got && tg > 0 && eaves) VF_WITNESS_K ("a matching deny decides while eavesdropping");
  }
#else
  {
    static char nm[VF_STRMAX + 1];
    DBusString name;
    int nl = vf_range (0, VF_STRMAX);
    for (i = 0; i < VF_STRMAX; i++) nm[i] = (char) vf_u8 ();
    nm[nl] = 0;
    for (i = 0; i < nl; i++) VF_ASSUME (nm[i] != 0);
    _dbus_string_init_const_len (&name, nm, nl);
    got = bus_client_policy_check_can_own (&pol, &name);
    for (i = 0; i < K; i++)
      if (ref_own_match (&ref[i], nm)) { want = ref[i].allow; tg++; }
    VF_ASSERT ((got != 0) == (want != 0), "own decision equals last-matching-rule evaluation");
    if (K > 0 && got && tg == K) VF_WITNESS_K ("every rule matches and owning is allowed");
    if (!got && tg > 0) VF_WITNESS_K ("a matching deny decides");
  }
#endif
  VF_WITNESS ("end of harness reached");
}
