/* C03.a / C05.a+b / C18 (placement) / C14 (dispatch) / C10 (containment) —
 * the real bus_dispatch(), bus_dispatch_matches() and send_one_message() of
 * bus/dispatch.c with EVERY callee a stub whose outcome is a solver variable
 * (each may fail / deny / run out of memory) and a ghost event trace.
 * R = number of connections the matchmaker returns (shape). */
#include <config.h>
#undef DBUS_ENABLE_VERBOSE_MODE
#include <dbus/dbus-internals.h>
#include <stdlib.h>
#include <string.h>
#include "vf.h"
#include "msg_model.h"
struct DBusConnection { int id; int active; int monitor; int refs; int can_fd; int policy_allows; int policy_oom; const char *name; };
#include "/repo/bus/dispatch.c"

#ifndef R
#define R 1
#endif
enum { E_REMOVE_UNKNOWN = 1, E_CLEAR_CONTAINER, E_SET_SENDER, E_TXN_NEW, E_CAPTURE, E_POLICY, E_DRIVER, E_ACTIVATE, E_SEND, E_CLOSE, E_DISCONNECTED,
       E_ERROR_REPLY, E_OOM_ERROR, E_EXECUTE, E_CANCEL, E_CAPTURE_ERROR, E_GET_RECIPIENTS };
/* ghost trace kept as scalars with constant indices (R4: no symbolic-index struct arrays):
 * per kind: count, sequence number / ok / arg of the first occurrence; per-destination send counters;
 * running conjunctions for "every event of this kind had argument X". */
#define NK 18
static int seq, cnt[NK], first_seq[NK], first_ok[NK], first_a[NK], first_b[NK];
static int sends_to[4], every_capture_addr_owner = 1, every_policy_addr_owner = 1, every_getrec_addr_owner = 1;
#define LOG(k, a_, b_, ok_) do { int a__ = (a_), b__ = (b_), ok__ = (ok_); seq++; if (cnt[k] == 0) { first_seq[k] = seq; first_ok[k] = ok__; first_a[k] = a__; first_b[k] = b__; } cnt[k]++; \
    if ((k) == E_CAPTURE && a__ != 1) every_capture_addr_owner = 0; if ((k) == E_POLICY && a__ != 1) every_policy_addr_owner = 0; if ((k) == E_GET_RECIPIENTS && a__ != 1) every_getrec_addr_owner = 0; \
    if ((k) == E_SEND) { if (a__ == 1) sends_to[1]++; else if (a__ == 2) sends_to[2]++; else if (a__ == 3) sends_to[3]++; else sends_to[0]++; } } while (0)
#define count_ev(k) (cnt[k])
#define first_ev(k) (cnt[k] ? first_seq[k] : -1)
#define EV_OK(k) (first_ok[k])
static struct DBusConnection sender_c, owner_c, rc0, rc1;
static struct DBusConnection *rcp[2] = { &rc0, &rc1 };
static struct DBusMessage msg; static char ms[6][VF_STRMAX + 1];
static int tok_ctx, tok_txn, tok_svc; static int txn_live;
static int svc_exists, driver_ok, driver_err_oom, activate_ok, activate_err_oom, error_reply_ok, has_fds, prealloc_fail_first, recipients_ok;
static const char *sender_stamp; static int sender_stamp_ok;
static const char NOT_ACTIVE[] = ":not.active.yet";

BusContext *bus_connection_get_context (DBusConnection *c) { return (BusContext *) &tok_ctx; }
BusContext *bus_transaction_get_context (BusTransaction *t) { return (BusContext *) &tok_ctx; }
dbus_bool_t bus_connection_preallocate_oom_error (DBusConnection *c) { if (prealloc_fail_first) { prealloc_fail_first = 0; return 0; } return 1; }
void _dbus_wait_for_memory (void) { }
DBusConnection *dbus_connection_ref (DBusConnection *c) { c->refs++; return c; }
void dbus_connection_unref (DBusConnection *c) { c->refs--; }
dbus_bool_t bus_connection_is_monitor (DBusConnection *c) { return c->monitor; }
dbus_bool_t bus_connection_is_active (DBusConnection *c) { return c->active; }
/* the sender's socket may already have closed when its last messages are dispatched (send, flush, close): not consulted by bus_dispatch today;
 * symbolic so that a change which starts to consult it is explored on both answers */
dbus_bool_t dbus_connection_get_is_connected (DBusConnection *c) { return vf_bool (); }
const char *bus_connection_get_name (DBusConnection *c) { return c->name; }
const char *bus_connection_get_loginfo (DBusConnection *c) { return "x"; }
void bus_context_log (BusContext *c, DBusSystemLogSeverity s, const char *m, ...) { }
const char *dbus_message_type_to_string (int t) { return "t"; }
void bus_connection_disconnected (DBusConnection *c) { LOG (E_DISCONNECTED, c->id, 0, 1); }
void dbus_connection_close (DBusConnection *c) { LOG (E_CLOSE, c->id, 0, 1); }
dbus_bool_t _dbus_message_remove_unknown_fields (DBusMessage *m) { int ok = vf_bool (); LOG (E_REMOVE_UNKNOWN, 0, 0, ok); if (ok) m->g_unknown_removed++; return ok; }
dbus_bool_t dbus_message_set_container_instance (DBusMessage *m, const char *p) { int ok = vf_bool (); LOG (E_CLEAR_CONTAINER, p == 0, 0, ok); if (ok) m->container = p; return ok; }
dbus_bool_t dbus_message_set_sender (DBusMessage *m, const char *n) { int ok = vf_bool (); LOG (E_SET_SENDER, 0, 0, ok); if (ok) { m->sender = n; sender_stamp = n; sender_stamp_ok = 1; } return ok; }
BusTransaction *bus_transaction_new (BusContext *c) { int ok = vf_bool (); LOG (E_TXN_NEW, 0, 0, ok); if (!ok) return 0; txn_live = 1; return (BusTransaction *) &tok_txn; }
void bus_transaction_execute_and_free (BusTransaction *t) { VF_ASSERT (txn_live, "transaction finished twice"); txn_live = 0; LOG (E_EXECUTE, 0, 0, 1); }
void bus_transaction_cancel_and_free (BusTransaction *t) { VF_ASSERT (txn_live, "transaction finished twice"); txn_live = 0; LOG (E_CANCEL, 0, 0, 1); }
dbus_bool_t bus_transaction_capture (BusTransaction *t, DBusConnection *s, DBusConnection *addressed, DBusMessage *m)
{ int ok = vf_bool (); LOG (E_CAPTURE, addressed ? addressed->id : -1, s ? s->id : -1, ok); return ok; }
dbus_bool_t bus_transaction_capture_error_reply (BusTransaction *t, DBusConnection *a, const DBusError *e, DBusMessage *m) { int ok = vf_bool (); LOG (E_CAPTURE_ERROR, 0, 0, ok); return ok; }
dbus_bool_t bus_context_check_security_policy (BusContext *context, BusTransaction *transaction, DBusConnection *sender, DBusConnection *addressed_recipient,
                                               DBusConnection *proposed_recipient, DBusMessage *message, BusActivationEntry *ae, DBusError *error)
{
  int allow, oom;
  static int driver_allows, driver_oom; static int init;
  if (!init) { driver_allows = vf_bool (); driver_oom = vf_bool (); init = 1; }
  allow = proposed_recipient ? proposed_recipient->policy_allows : driver_allows;
  oom = proposed_recipient ? proposed_recipient->policy_oom : driver_oom;
  LOG (E_POLICY, addressed_recipient ? addressed_recipient->id : -1, proposed_recipient ? proposed_recipient->id : -1, allow);
  if (!allow) { error->name = oom ? DBUS_ERROR_NO_MEMORY : DBUS_ERROR_ACCESS_DENIED; error->message = "m"; }
  return allow;
}
dbus_bool_t bus_driver_handle_message (DBusConnection *c, BusTransaction *t, DBusMessage *m, DBusError *e)
{ LOG (E_DRIVER, 0, 0, driver_ok);
  /* the driver's contract: from a connection that has not completed Hello it either handles Hello (the connection is active afterwards) or fails */
  if (!c->active && driver_ok) { c->active = 1; c->name = ":1.7"; }
  if (!driver_ok) { e->name = driver_err_oom ? DBUS_ERROR_NO_MEMORY : DBUS_ERROR_UNKNOWN_METHOD; e->message = "m"; } return driver_ok; }
BusRegistry *bus_connection_get_registry (DBusConnection *c) { return (BusRegistry *) &tok_ctx; }
BusService *bus_registry_lookup (BusRegistry *r, const DBusString *s) { return svc_exists ? (BusService *) &tok_svc : 0; }
DBusConnection *bus_service_get_primary_owners_connection (BusService *s) { return &owner_c; }
BusActivation *bus_connection_get_activation (DBusConnection *c) { return (BusActivation *) &tok_ctx; }
dbus_bool_t bus_activation_activate_service (BusActivation *a, DBusConnection *c, BusTransaction *t, dbus_bool_t auto_act, DBusMessage *m, const char *n, DBusError *e)
{ LOG (E_ACTIVATE, 0, 0, activate_ok); if (!activate_ok) { e->name = activate_err_oom ? DBUS_ERROR_NO_MEMORY : DBUS_ERROR_SERVICE_UNKNOWN; e->message = "m"; } return activate_ok; }
dbus_bool_t dbus_message_contains_unix_fds (DBusMessage *m) { return has_fds; }
dbus_bool_t dbus_connection_can_send_type (DBusConnection *c, int type) { return c->can_fd; }
dbus_bool_t bus_transaction_send (BusTransaction *t, DBusConnection *s, DBusConnection *d, DBusMessage *m) { int ok = vf_bool (); LOG (E_SEND, d->id, 0, ok); return ok; }
BusConnections *bus_context_get_connections (BusContext *c) { return (BusConnections *) &tok_ctx; }
BusMatchmaker *bus_context_get_matchmaker (BusContext *c) { return (BusMatchmaker *) &tok_ctx; }
dbus_bool_t bus_matchmaker_get_recipients (BusMatchmaker *mm, BusConnections *cs, DBusConnection *s, DBusConnection *addressed, DBusMessage *m, DBusList **out)
{
  int i;
  LOG (E_GET_RECIPIENTS, addressed ? addressed->id : -1, 0, recipients_ok);
  if (!recipients_ok) return 0;
  for (i = 0; i < R; i++) { dbus_bool_t a = _dbus_list_append (out, rcp[i]); VF_ASSUME (a); }
  return 1;
}
dbus_bool_t bus_transaction_send_error_reply (BusTransaction *t, DBusConnection *c, const DBusError *e, DBusMessage *m)
{ LOG (E_ERROR_REPLY, c->id, e->name == 0 ? 0 : (strcmp (e->name, DBUS_ERROR_NAME_HAS_NO_OWNER) == 0 ? 1 : strcmp (e->name, DBUS_ERROR_ACCESS_DENIED) == 0 ? 2 : 3), error_reply_ok); return error_reply_ok; }
void bus_connection_send_oom_error (DBusConnection *c, DBusMessage *m) { LOG (E_OOM_ERROR, c->id, 0, 1); }
void dbus_set_error (DBusError *e, const char *name, const char *fmt, ...) { if (e) { e->name = name; e->message = "m"; } }
void dbus_set_error_const (DBusError *e, const char *name, const char *m) { if (e) { e->name = name; e->message = m; } }
void dbus_error_init (DBusError *e) { e->name = 0; e->message = 0; }
void dbus_error_free (DBusError *e) { e->name = 0; e->message = 0; }
dbus_bool_t dbus_error_is_set (const DBusError *e) { return e->name != 0; }
dbus_bool_t dbus_error_has_name (const DBusError *e, const char *n) { return e->name && strcmp (e->name, n) == 0; }
void dbus_move_error (DBusError *s, DBusError *d) { if (d) *d = *s; s->name = 0; s->message = 0; }
const char bus_no_memory_message[] = "oom";


void harness (void)
{
  DBusHandlerResult res; int i, first_route = -1, to_driver, n_err, sends_owner = 0, was_active;
  static const char DRIVER[] = DBUS_SERVICE_DBUS;
  vf_msg_symbolic (&msg, ms);
  if (vf_bool ()) msg.dest = DRIVER;                         /* also: addressed to the bus driver */
  if (vf_bool ()) { msg.type = DBUS_MESSAGE_TYPE_SIGNAL; msg.iface = DBUS_INTERFACE_LOCAL; msg.member = "Disconnected"; }
  sender_c.id = 0; sender_c.active = was_active = vf_bool (); sender_c.monitor = vf_bool (); sender_c.name = sender_c.active ? ":7" : 0;   /* shorter than the longest client-supplied SENDER (VF_STRMAX): forged senders that extend the true name are in range */ sender_c.refs = 1;
  owner_c.id = 1; owner_c.active = 1; owner_c.name = ":1.1"; owner_c.can_fd = vf_bool (); owner_c.policy_allows = vf_bool (); owner_c.policy_oom = vf_bool ();
  for (i = 0; i < 2; i++) { rcp[i]->id = 2 + i; rcp[i]->active = 1; rcp[i]->name = ":1.9"; rcp[i]->can_fd = vf_bool (); rcp[i]->policy_allows = vf_bool (); rcp[i]->policy_oom = vf_bool (); }
  svc_exists = vf_bool (); driver_ok = vf_bool (); driver_err_oom = vf_bool (); activate_ok = vf_bool (); activate_err_oom = vf_bool ();
  error_reply_ok = vf_bool (); has_fds = vf_bool (); prealloc_fail_first = vf_bool (); recipients_ok = vf_bool ();
  to_driver = msg.dest && strcmp (msg.dest, DBUS_SERVICE_DBUS) == 0;

  res = bus_dispatch (&sender_c, &msg);

  VF_ASSERT (sender_c.refs == 1, "connection reference balanced");
  VF_ASSERT (!txn_live, "every transaction is executed or cancelled");
  VF_ASSERT (count_ev (E_EXECUTE) + count_ev (E_CANCEL) == (first_ev (E_TXN_NEW) >= 0 && EV_OK (E_TXN_NEW) ? 1 : 0), "the transaction is finished exactly once");
  { static const int rk[] = { E_CAPTURE, E_POLICY, E_DRIVER, E_ACTIVATE, E_SEND, E_GET_RECIPIENTS, E_CAPTURE_ERROR };
    for (i = 0; i < 7; i++) if (cnt[rk[i]] && (first_route < 0 || first_seq[rk[i]] < first_route)) first_route = first_seq[rk[i]]; }

  if (sender_c.monitor)
    {
      VF_ASSERT (first_route < 0 && count_ev (E_TXN_NEW) == 0, "a monitor's own message is never routed");
      VF_ASSERT (count_ev (E_CLOSE) + count_ev (E_DISCONNECTED) == 1, "a monitor that sends anything is disconnected");
      VF_WITNESS ("monitor sent a message");
      return;
    }
  /* C03.a: stamping precedes every routing action */
  if (first_route >= 0)
    {
      int ru = first_ev (E_REMOVE_UNKNOWN), cc = first_ev (E_CLEAR_CONTAINER), ss = first_ev (E_SET_SENDER);
      VF_ASSERT (ru >= 0 && ru < first_route && EV_OK (E_REMOVE_UNKNOWN), "unknown header fields are stripped before any routing action");
      VF_ASSERT (cc >= 0 && cc < first_route && EV_OK (E_CLEAR_CONTAINER) && first_a[E_CLEAR_CONTAINER] == 1, "the container-instance field is cleared before any routing action");
      VF_ASSERT (ss >= 0 && ss < first_route && EV_OK (E_SET_SENDER) && count_ev (E_SET_SENDER) == 1, "the sender is stamped, once, before any routing action");
      VF_ASSERT (was_active ? (sender_stamp == sender_c.name) : (strcmp (sender_stamp, ":not.active.yet") == 0),
                 "the stamped sender is the connection's own unique name (or the not-active placeholder)");
      VF_ASSERT (msg.sender == sender_stamp, "and is what the message carries");
    }
  if ((first_ev (E_REMOVE_UNKNOWN) >= 0 && !EV_OK (E_REMOVE_UNKNOWN)) || (first_ev (E_CLEAR_CONTAINER) >= 0 && !EV_OK (E_CLEAR_CONTAINER))
      || (first_ev (E_SET_SENDER) >= 0 && !EV_OK (E_SET_SENDER)))
    {
      VF_ASSERT (first_route < 0, "failure to sanitise the header routes nothing");
      VF_ASSERT (count_ev (E_OOM_ERROR) == 1 && count_ev (E_EXECUTE) == 0, "and is reported as out-of-memory, the transaction is not executed");
      VF_WITNESS ("sanitising failed");
    }
  /* C18: capture precedes the policy gate */
  if (first_ev (E_POLICY) >= 0) VF_ASSERT (first_ev (E_CAPTURE) >= 0 && first_ev (E_CAPTURE) < first_ev (E_POLICY) && EV_OK (E_CAPTURE), "monitors capture the message before the policy gate can refuse it");
  if (first_ev (E_SEND) >= 0 || first_ev (E_DRIVER) >= 0 || first_ev (E_ACTIVATE) >= 0) VF_ASSERT (first_ev (E_CAPTURE) >= 0 && EV_OK (E_CAPTURE), "nothing is delivered or handled without having been offered to monitors");
  /* C18: every message that got as far as a transaction with a stamped sender is offered to monitors, deliverable or not */
  if (first_ev (E_TXN_NEW) >= 0 && EV_OK (E_TXN_NEW) && first_ev (E_SET_SENDER) >= 0 && EV_OK (E_SET_SENDER))
    VF_ASSERT (count_ev (E_CAPTURE) >= 1, "monitors are offered every processed message, including undeliverable and refused ones");
  /* errors */
  n_err = count_ev (E_ERROR_REPLY) + count_ev (E_OOM_ERROR);
  VF_ASSERT (n_err <= 2 && count_ev (E_ERROR_REPLY) <= 1 && count_ev (E_OOM_ERROR) <= 1, "at most one error emission (an OOM error only replaces a failed error reply)");
  if (count_ev (E_OOM_ERROR)) VF_ASSERT (count_ev (E_EXECUTE) == 0, "out-of-memory => the transaction is cancelled, never executed (all or nothing)");
  if (count_ev (E_ERROR_REPLY) && count_ev (E_OOM_ERROR)) VF_ASSERT (!error_reply_ok, "OOM error only when the error reply could not be queued");
  /* inactive sender */
  if (!was_active && !to_driver && first_route >= 0)
    {
      VF_ASSERT (count_ev (E_POLICY) == 0 && count_ev (E_SEND) == 0 && count_ev (E_DRIVER) == 0 && count_ev (E_ACTIVATE) == 0 && count_ev (E_GET_RECIPIENTS) == 0, "a client that has not said Hello can only talk to the bus driver");
      VF_ASSERT (count_ev (E_CLOSE) == 1 || !EV_OK (E_CAPTURE), "and is disconnected");
      VF_WITNESS ("inactive sender refused");
    }
  /* C05.a unicast */
  sends_owner = sends_to[1];
  if (was_active && msg.dest && !to_driver)
    {
      if (svc_exists)
        {
          VF_ASSERT (every_capture_addr_owner, "monitors see the message with the current primary owner as addressed recipient");
          VF_ASSERT (every_policy_addr_owner && every_getrec_addr_owner, "the addressed recipient is the current primary owner of the destination name");
          VF_ASSERT (sends_owner <= 1, "the owner gets the message at most once");
          if (sends_owner) VF_ASSERT (owner_c.policy_allows && (!has_fds || owner_c.can_fd), "delivery only after the policy allowed it and only with fds to a peer that negotiated them");
          if (!owner_c.policy_allows || (has_fds && !owner_c.can_fd))
            {
              VF_ASSERT (count_ev (E_SEND) == 0 && count_ev (E_GET_RECIPIENTS) == 0, "a refused unicast message is delivered to no one, eavesdroppers included");
              if (first_ev (E_CAPTURE) >= 0 && EV_OK (E_CAPTURE) && first_ev (E_POLICY) >= 0)
                VF_ASSERT (n_err >= 1, "and its sender gets an error");
              VF_WITNESS ("unicast refused");
            }
          /* completeness ("exactly once", not only "at most once"): a unicast message that nothing refused — no error or out-of-memory emission,
           * sender not disconnected by the bus — is staged for the owner and the transaction is executed, whatever the state of the sender's socket */
          if (n_err == 0 && count_ev (E_CLOSE) == 0 && count_ev (E_DISCONNECTED) == 0 && !sender_c.monitor)
            VF_ASSERT (sends_owner == 1 && count_ev (E_EXECUTE) == 1, "a unicast message that nobody refused is delivered to the current owner exactly once");
          if (sends_owner && count_ev (E_EXECUTE)) VF_WITNESS ("unicast delivered");
        }
      else if (!msg.auto_start)
        {
          VF_ASSERT (count_ev (E_SEND) == 0 && count_ev (E_GET_RECIPIENTS) == 0 && count_ev (E_POLICY) == 0, "a message to a name without owner is delivered to no one");
          if (first_ev (E_CAPTURE) >= 0 && EV_OK (E_CAPTURE))
            {
              VF_ASSERT (n_err >= 1, "its sender gets exactly one error");
              if (count_ev (E_ERROR_REPLY)) VF_ASSERT (first_b[E_ERROR_REPLY] == 1, "namely NameHasNoOwner");
              VF_WITNESS ("no owner");
            }
        }
      else
        {
          VF_ASSERT (count_ev (E_SEND) == 0 && count_ev (E_GET_RECIPIENTS) == 0, "an auto-start message is held, not delivered now");
          if (first_ev (E_CAPTURE) >= 0 && EV_OK (E_CAPTURE)) VF_ASSERT (count_ev (E_ACTIVATE) == 1, "activation is requested exactly once");
        }
    }
  /* C05.b eavesdroppers / broadcast recipients */
  for (i = 0; i < 2; i++)
    {
      int n = sends_to[2 + i];
      VF_ASSERT (n <= 1, "each matching connection gets the message at most once");
      if (n) VF_ASSERT (i < R && rcp[i]->policy_allows && (!has_fds || rcp[i]->can_fd), "and only if its receive policy allows it and it can take the fds");
    }
#if R > 0
  if (count_ev (E_SEND) >= 1 && count_ev (E_EXECUTE) && !msg.dest) VF_WITNESS ("broadcast delivered");
#endif
  if (count_ev (E_DRIVER)) { VF_ASSERT (to_driver, "the driver only handles messages addressed to org.freedesktop.DBus"); VF_WITNESS ("driver call"); }
  VF_WITNESS ("end of harness reached");
}
