/* C09 (expiry pass) — do_expiration_with_monotonic_time of the real
 * bus/expirelist.c over P items: every item that is due (marked for immediate
 * expiry by a disconnect, i.e. added time 0/0, or older than the timeout) is
 * handed to the expire function exactly once in the pass, items not yet due are
 * left alone, and if the expire function reports failure the pass stops and asks
 * to be re-run shortly (so nothing is lost).  Times are chosen from a small set of
 * concrete instants (floating-point elapsed-time arithmetic stays concrete). */
#include <config.h>
#undef DBUS_ENABLE_VERBOSE_MODE
#include <dbus/dbus-internals.h>
#include <stdlib.h>
#include "vf.h"
struct DBusTimeout { int enabled; int interval; };
#include "/repo/bus/expirelist.c"
#ifndef P
#define P 2
#endif
dbus_bool_t dbus_timeout_get_enabled (DBusTimeout *t) { return t->enabled; }
void _dbus_timeout_restart (DBusTimeout *t, int interval) { t->enabled = 1; t->interval = interval; }
void _dbus_timeout_disable (DBusTimeout *t) { t->enabled = 0; }
int _dbus_get_oom_wait (void) { return 500; }
static BusExpireItem it[4]; static int expired[4], fail_at, calls;
static dbus_bool_t expire_fn (BusExpireList *list, DBusList *link, void *data)
{
  int i;
  calls++;
  if (fail_at > 0 && calls == fail_at) return FALSE;
  for (i = 0; i < P; i++) if (link->data == &it[i]) expired[i]++;
  _dbus_list_remove_link (&list->items, link);
  return TRUE;
}
void harness (void)
{
  static BusExpireList list; static struct DBusTimeout tmo; DBusList *ln[4]; int i, due[4], next, stopped = 0, n_due_before_fail = 0;
  int timeout_ms = vf_bool () ? -1 : 25000;      /* default (infinite) or 25 s reply timeout */
  list.timeout = &tmo; list.expire_func = expire_fn; list.expire_after = timeout_ms;
  for (i = 0; i < P; i++)
    {
      int when = vf_range (0, 2);                /* 0: marked for immediate expiry; 1: 50 s old; 2: 1 s old */
      it[i].added_tv_sec = when == 0 ? 0 : when == 1 ? 50 : 99; it[i].added_tv_usec = 0;
      due[i] = (when == 0) || (timeout_ms > 0 && when == 1);
      ln[i] = calloc (1, sizeof (DBusList)); VF_ASSUME (ln[i] != 0); ln[i]->data = &it[i];
    }
  for (i = 0; i < P; i++) { ln[i]->next = ln[(i + 1) % P]; ln[i]->prev = ln[(i + P - 1) % P]; }
  list.items = ln[0];
  fail_at = vf_range (0, P);
  next = do_expiration_with_monotonic_time (&list, 100, 0);
  for (i = 0; i < P; i++)
    {
      if (due[i]) n_due_before_fail++;
      if (fail_at > 0 && due[i] && n_due_before_fail == fail_at) stopped = 1;     /* the failing call */
      if (!due[i]) VF_ASSERT (expired[i] == 0, "an item that is not yet due is left alone");
      else if (!stopped) VF_ASSERT (expired[i] == 1, "every due item is expired exactly once in the pass");
      else VF_ASSERT (expired[i] == 0, "after a failed expiry the remaining items are kept for the next pass");
    }
  if (stopped) VF_ASSERT (next == 500, "a failed expiry asks for a prompt re-run");
  if (!stopped && n_due_before_fail == P) VF_WITNESS ("all items due and expired");
  if (stopped) VF_WITNESS_OPT ("expire function failed");
  VF_WITNESS ("end of harness reached");
}
