/* C12 — one header edit on a wire-format header of CONCRETE layout (job shape: byte
 * order, list of <field code, type, value length>, the edit and its operand length) whose
 * every value byte is a solver variable, through the real
 *   _dbus_header_set_field_basic / _dbus_header_delete_field / _dbus_header_remove_unknown_fields
 * (dbus-marshal-header.c) and the real DBusTypeReader/Writer delete / set_basic /
 * realign machinery (dbus-marshal-recursive.c, dbus-marshal-basic.c, dbus-string.c).
 * Oracle: an independent 40-line encoder produces the canonical serialisation of the
 * field list after the edit (same order; replaced in place / appended at the end /
 * removed); the real result must equal it byte for byte — length, array length word,
 * alignment padding (zero), trailing padding to 8 and header->padding included — and
 * every field must read back through _dbus_header_get_field_basic as the model says.
 * The canonical serialisation of a field list is a well-formed header by construction,
 * so equality gives "well-formed, edited field reads back, nothing else changed".
 * One step from any header of the shape family = induction over edit sequences. */
#include <config.h>
#undef DBUS_ENABLE_VERBOSE_MODE
#include <dbus/dbus-internals.h>
#include "vf.h"
#ifndef ORDER
#define ORDER 'l'
#endif
#define VF_ORDER ORDER
#define VF_STR_CAP 160
#include "pool_strings.h"
#include <dbus/dbus-marshal-header.h>
#include <string.h>
/* The strlen() calls of dbus-marshal-basic.c (marshal_string / marshal_signature; today the only ones) see strings whose bytes are solver variables;
 * a byte-scanning strlen would make every later position symbolic.  They are replaced by a CHECKED oracle: the length is taken from
 * the wire-format length prefix in front of the value (or is the operand length for the new value), and the oracle's answer is an
 * obligation: no NUL among the first n bytes and a NUL at n.  A wrong guess fails the check, it cannot hide a defect. */
static unsigned char vf_newval[16]; static int vf_newlen = -1;
static size_t vf_strlen (const char *v)
{
  const unsigned char *u = (const unsigned char *) v; size_t n, i;
  if (u == vf_newval) n = (size_t) vf_newlen;
  else if (__CPROVER_POINTER_OFFSET (u) % 8 == 5) n = u[-1];                                       /* SIGNATURE value: one length byte in front */
  else n = VF_ORDER == 'l' ? (size_t) (u[-4] | u[-3] << 8 | u[-2] << 16 | (unsigned) u[-1] << 24) : (size_t) (u[-1] | u[-2] << 8 | u[-3] << 16 | (unsigned) u[-4] << 24);
  VF_ASSERT (n <= 16, "strlen oracle: length prefix is small (harness bound)");
  for (i = 0; i < 16; i++) if (i < n) VF_ASSERT (u[i] != 0, "strlen oracle: no NUL before the claimed length");
  VF_ASSERT (u[n] == 0, "strlen oracle: NUL at the claimed length");
  return n;
}
#define strlen vf_strlen
#include "/repo/dbus/dbus-marshal-basic.c"
#ifdef POSOFF
/* OP 4 (far header): the position the reader reports for a field value is shifted by a solver-chosen K, standing for a header whose fields lie K bytes further
 * along (headers may be up to 2^27 bytes; building one is far outside any buffer bound).  The cache must hand every such position back unchanged. */
#include <dbus/dbus-marshal-recursive.h>
static int vf_posoff;
static int vf_value_pos (const DBusTypeReader *r) { return _dbus_type_reader_get_value_pos (r) + vf_posoff; }
#define _dbus_type_reader_get_value_pos vf_value_pos
#endif
#include "/repo/dbus/dbus-marshal-header.c"          /* same oracle for any strlen a change introduces into the header code */
#undef strlen
#ifndef OP
#define OP 1        /* 0 strip unknown, 1 set string-like field, 2 delete field, 3 set uint32 field */
#endif
#ifndef FIELD
#define FIELD 6
#endif
#ifndef NL
#define NL 3        /* length of the new value (OP 1) */
#endif
#ifndef SHAPE
#define SHAPE 0
#endif
#ifndef KOOM
#define KOOM 0      /* > 0: allocation number KOOM of the edit fails (C14) */
#endif
extern int vf_oom_at, vf_oom_hit, vf_alloc_calls;
#define MAXV 12
struct fld { unsigned char code; char type; int len; unsigned char val[MAXV]; };
#define NF_MAX 7
/* layouts: {code, type, value length}; code 0 terminates.  Known codes: 1 PATH o, 2 INTERFACE s, 3 MEMBER s, 4 ERROR_NAME s,
 * 5 REPLY_SERIAL u, 6 DESTINATION s, 7 SENDER s, 8 SIGNATURE g, 9 UNIX_FDS u, 10 CONTAINER_INSTANCE o; >10 unknown */
static const struct { unsigned char code; char type; int len; } shapes[][NF_MAX] = {
  /* 0 */ { {1, 'o', 2}, {3, 's', 1}, {6, 's', 3}, {8, 'g', 1}, {0} },
  /* 1 */ { {6, 's', 5}, {1, 'o', 1}, {200, 'y', 1}, {3, 's', 2}, {0} },
  /* 2 */ { {200, 'y', 1}, {1, 'o', 1}, {201, 's', 2}, {7, 's', 2}, {130, 'u', 4}, {0} },
  /* 3 */ { {5, 'u', 4}, {4, 's', 3}, {7, 's', 4}, {0} },
  /* 4 */ { {0} },
  /* 5 */ { {3, 's', 1}, {10, 'o', 3}, {2, 's', 3}, {9, 'u', 4}, {1, 'o', 1}, {0} },
  /* 6 */ { {11, 's', 1}, {127, 'g', 2}, {128, 'y', 1}, {255, 'u', 4}, {0} },
};
static struct fld M[NF_MAX + 1], M0[NF_MAX + 1]; static int nf; static int VP[NF_MAX + 1];   /* VP: where the encoder put each value (aligned start) */
static int al (int p, int a) { return (p + a - 1) / a * a; }
static void put32 (unsigned char *p, unsigned v) { int i; for (i = 0; i < 4; i++) p[i] = (unsigned char) (ORDER == 'l' ? v >> (8 * i) : v >> (8 * (3 - i))); }
static unsigned get32 (const unsigned char *p) { unsigned v = 0; int i; for (i = 0; i < 4; i++) v |= (unsigned) p[i] << (ORDER == 'l' ? 8 * i : 8 * (3 - i)); return v; }
/* canonical serialisation of M[0..nf) after the 12 fixed bytes in out[]; returns the end of the field array (before padding) */
static int ref_encode (unsigned char *out)
{
  int pos = 16, i, k;
  for (i = 0; i < nf; i++)
    {
      while (pos % 8) out[pos++] = 0;
      out[pos++] = M[i].code; out[pos++] = 1; out[pos++] = (unsigned char) M[i].type; out[pos++] = 0;
      switch (M[i].type)
        {
        case 'y': VP[i] = pos; out[pos++] = M[i].val[0]; break;
        case 'u': while (pos % 4) out[pos++] = 0; VP[i] = pos; for (k = 0; k < 4; k++) out[pos++] = M[i].val[k]; break;
        case 'g': VP[i] = pos; out[pos++] = (unsigned char) M[i].len; for (k = 0; k < M[i].len; k++) out[pos++] = M[i].val[k]; out[pos++] = 0; break;
        default:  while (pos % 4) out[pos++] = 0; VP[i] = pos; put32 (out + pos, (unsigned) M[i].len); pos += 4; for (k = 0; k < M[i].len; k++) out[pos++] = M[i].val[k]; out[pos++] = 0; break;
        }
    }
  put32 (out + 12, (unsigned) (pos - 16));
  return pos;
}
static int find (int code) { int i; for (i = 0; i < nf; i++) if (M[i].code == code) return i; return -1; }

void harness (void)
{
  static unsigned char exp[VF_STR_CAP]; DBusHeader h; DBusRealString *r; int i, k, end, len0, idx; dbus_bool_t ok;
  unsigned char *newval = vf_newval; const char *newp = (const char *) vf_newval; dbus_uint32_t newu = vf_u32 ();
  /* ---- pre-state: canonical serialisation of the shape with arbitrary contents */
  for (nf = 0; shapes[SHAPE][nf].code; nf++)
    { M[nf].code = shapes[SHAPE][nf].code; M[nf].type = shapes[SHAPE][nf].type; M[nf].len = shapes[SHAPE][nf].len;
      for (k = 0; k < M[nf].len; k++) { M[nf].val[k] = vf_u8 (); if (M[nf].type != 'y' && M[nf].type != 'u') VF_ASSUME (M[nf].val[k] != 0); } }
  for (i = 0; i < nf; i++) M0[i] = M[i];
  VF_ASSUME (_dbus_string_init (&h.data)); r = (DBusRealString *) &h.data;
  r->str[0] = ORDER; r->str[1] = (unsigned char) vf_range (1, 4); r->str[2] = vf_u8 (); r->str[3] = 1;
  for (i = 4; i < 12; i++) r->str[i] = vf_u8 ();                       /* body length, serial */
  for (i = 0; i < 12; i++) exp[i] = r->str[i];
  end = ref_encode (r->str); len0 = al (end, 8); for (i = end; i < len0; i++) r->str[i] = 0; r->str[len0] = 0; r->len = len0;
  h.padding = (unsigned) (len0 - end); h.byte_order = ORDER;
  for (i = 0; i <= DBUS_HEADER_FIELD_LAST; i++) h.fields[i].value_pos = _DBUS_HEADER_FIELD_VALUE_UNKNOWN;
  { static unsigned char pre[VF_STR_CAP]; int pre_len = len0, pre_pad = (int) h.padding;
    for (i = 0; i < len0; i++) pre[i] = r->str[i];
    vf_oom_at = KOOM ? vf_alloc_calls + KOOM : 0; vf_oom_hit = 0;
#if KOOM
#if OP == 0
  /* strip removes unknown fields one at a time; when a later removal fails, the earlier ones stay removed.  The hard obligation is that the header is then the
   * canonical encoding of the original list minus the first j unknown fields for some j (well-formed, every known field intact); that it is not j = 0
   * ("exactly as it was") is known finding F16. */
#define VF_OOM_CHECK() do { if (!ok) { int j_, hit_ = -1; \
      VF_ASSERT (vf_oom_hit > 0, "an edit fails only when an allocation failed"); \
      for (j_ = 0; j_ <= NF_MAX; j_++) { int u_ = 0, same_ = 1, e_; nf = 0; \
          for (i = 0; shapes[SHAPE][i].code; i++) { int unk_ = shapes[SHAPE][i].code > DBUS_HEADER_FIELD_LAST; if (unk_ && u_ < j_) { u_++; continue; } M[nf] = M0[i]; nf++; } \
          if (u_ < j_) break; \
          e_ = ref_encode (exp); \
          if (_dbus_string_get_length (&h.data) != al (e_, 8) || (int) h.padding != al (e_, 8) - e_) same_ = 0; \
          for (i = 12; i < e_; i++) if (same_ && r->str[i] != exp[i]) same_ = 0; \
          if (same_ && hit_ < 0) hit_ = j_; } \
      VF_ASSERT (hit_ >= 0, "a strip that fails midway leaves a well-formed header: the original fields minus the first few unknown ones, known fields intact"); \
      VF_FINDING (hit_ == 0, "F16-strip-unknown-not-atomic-under-oom"); \
      VF_WITNESS_OPT ("edit failed for lack of memory"); goto vf_end; } } while (0)
#else
#define VF_OOM_CHECK() do { if (!ok) { \
      VF_ASSERT (vf_oom_hit > 0, "an edit fails only when an allocation failed"); \
      VF_ASSERT (_dbus_string_get_length (&h.data) == pre_len && (int) h.padding == pre_pad, "a failed edit leaves the header's length and padding as they were (the serialised message stays well-formed)"); \
      for (i = 0; i < pre_len; i++) VF_ASSERT (r->str[i] == pre[i], "a failed edit leaves every header byte as it was"); \
      VF_WITNESS_OPT ("edit failed for lack of memory"); goto vf_end; } } while (0)
#endif
#else
#define VF_OOM_CHECK() do { } while (0)
#endif
#ifdef PREFILL
  /* a getter has run since the last edit: the field-position cache is filled (the state in which a stale cache entry can survive an edit) */
  { const DBusString *ps_; int pp_; (void) _dbus_header_get_field_raw (&h, DBUS_HEADER_FIELD_PATH, &ps_, &pp_); }
#endif
  /* ---- the edit, on the real code and on the model */
#if OP == 4
  /* no edit: every field of a far header is found at the position the reader reported, whatever that position is (up to the 2^27-byte message limit) */
  vf_posoff = 8 * vf_range (0, (DBUS_MAXIMUM_MESSAGE_LENGTH / 8) - 32);
  for (k = 1; k <= DBUS_HEADER_FIELD_LAST; k++)
    { const DBusString *s_ = 0; int p_ = -1; dbus_bool_t got_ = _dbus_header_get_field_raw (&h, k, &s_, &p_);
      idx = find (k);
      if (idx < 0) VF_ASSERT (!got_, "an absent field reads as absent (far header)");
      else VF_ASSERT (got_ && s_ == &h.data && p_ == VP[idx] + vf_posoff, "a field value is found at exactly the position the reader reported, for every position a header can have"); }
  VF_WITNESS_OPT ("far header read"); vf_posoff = 0; ok = TRUE;
  for (i = 0; i <= DBUS_HEADER_FIELD_LAST; i++) h.fields[i].value_pos = _DBUS_HEADER_FIELD_VALUE_UNKNOWN;
#elif OP == 0
  ok = _dbus_header_remove_unknown_fields (&h);
  for (i = 0, k = 0; i < nf; i++) if (M[i].code <= DBUS_HEADER_FIELD_LAST) M[k++] = M[i];
  nf = k;
#elif OP == 1
  for (k = 0; k < NL; k++) { newval[k] = vf_u8 (); VF_ASSUME (newval[k] != 0); } newval[NL] = 0; vf_newlen = NL;
  ok = _dbus_header_set_field_basic (&h, FIELD, (FIELD == 1 || FIELD == 10) ? DBUS_TYPE_OBJECT_PATH : (FIELD == 8 ? DBUS_TYPE_SIGNATURE : DBUS_TYPE_STRING), &newp);
  idx = find (FIELD); if (idx < 0) { idx = nf++; M[idx].code = FIELD; M[idx].type = (FIELD == 1 || FIELD == 10) ? 'o' : (FIELD == 8 ? 'g' : 's'); }
  M[idx].len = NL; for (k = 0; k < NL; k++) M[idx].val[k] = newval[k];
#elif OP == 2
  ok = _dbus_header_delete_field (&h, FIELD);
  idx = find (FIELD); if (idx >= 0) { for (i = idx; i + 1 < nf; i++) M[i] = M[i + 1]; nf--; }
#else
  ok = _dbus_header_set_field_basic (&h, FIELD, DBUS_TYPE_UINT32, &newu);
  idx = find (FIELD); if (idx < 0) { idx = nf++; M[idx].code = FIELD; M[idx].type = 'u'; M[idx].len = 4; }
  { unsigned char t[4]; put32 (t, newu); for (k = 0; k < 4; k++) M[idx].val[k] = t[k]; }
#endif
  VF_OOM_CHECK ();
  VF_ASSERT (ok, "the edit succeeds when memory is available");
  }
  /* ---- oracle */
  end = ref_encode (exp);
  VF_ASSERT (_dbus_string_get_length (&h.data) == al (end, 8), "header length = end of the field array rounded up to 8");
  VF_ASSERT ((int) h.padding == al (end, 8) - end, "header->padding is the distance to the 8-byte boundary");
  for (i = 0; i < end; i++) VF_ASSERT (r->str[i] == exp[i], "serialised header equals the canonical encoding of the edited field list (fixed part, array length, every other field, alignment padding)");
  for (i = end; i < al (end, 8); i++) VF_ASSERT (r->str[i] == 0, "padding up to the body is zero");
  VF_ASSERT (h.byte_order == ORDER, "byte order unchanged");
  /* ---- read-back through the real accessor */
  for (k = 1; k <= DBUS_HEADER_FIELD_LAST; k++)
    {
      idx = find (k);
      if (idx < 0) { const DBusString *s; int p; VF_ASSERT (!_dbus_header_get_field_raw (&h, k, &s, &p), "an absent field reads as absent"); }
      else if (M[idx].type == 'u') { dbus_uint32_t v = 0; VF_ASSERT (_dbus_header_get_field_basic (&h, k, DBUS_TYPE_UINT32, &v) && v == get32 (M[idx].val), "uint32 field reads back"); }
      else
        { const char *v = 0; int j; VF_ASSERT (_dbus_header_get_field_basic (&h, k, M[idx].type, &v) && v != 0, "string-like field present");
          for (j = 0; j < M[idx].len; j++) VF_ASSERT ((unsigned char) v[j] == M[idx].val[j], "string-like field reads back as set / as before"); VF_ASSERT (v[M[idx].len] == 0, "and is NUL terminated"); }
    }
  VF_WITNESS_OPT ("edit completed");
vf_end:
  VF_WITNESS ("end of harness reached");
}
