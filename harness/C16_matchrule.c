/* C16 (match-rule route) — "the same verdict whether reached through the public validation functions, ... or match-rule
 * handling in the bus": the real bus_match_rule_parse (bus/signals.c: tokenize_rule, find_key, find_value and the per-key
 * validation) on the rule text  <KEY>=<N symbolic bytes>  accepts the rule exactly when the specification's grammar for that
 * key's value accepts the N bytes.  The value bytes are assumed to contain no comma, apostrophe, backslash or NUL, so that
 * the value IS those bytes (the quoting layer is C07.c's subject). */
#include <config.h>
#undef DBUS_ENABLE_VERBOSE_MODE
#include <dbus/dbus-internals.h>
#include <stdlib.h>
#include <string.h>
#include "vf.h"
#include "msg_model.h"
#include "ref_names.h"
#define VF_STR_CAP 32
#define VF_NSTR 16
#define _dbus_string_steal_data vf_real_steal_data
#define _dbus_string_append_byte vf_real_append_byte
#include "pool_strings.h"
#undef _dbus_string_steal_data
#undef _dbus_string_append_byte
struct DBusConnection { int id; };
struct DBusHashTable { int dummy; };
#include "/repo/bus/signals.c"
#ifdef VALUE
#define N ((int) sizeof (VALUE) - 1)
#endif
#ifndef N
#define N 3
#endif
#ifndef KEYSTR
#define KEYSTR "sender"
#endif
#ifndef REF
#define REF 0        /* 0 bus name (unique names: documented-lenient set, F1), 1 interface, 2 member, 3 path, 4 bus namespace prefix (arg0namespace) */
#endif
static const char *vf_err_name;
void dbus_set_error (DBusError *e, const char *name, const char *fmt, ...) { vf_err_name = name; if (e) { e->name = name; e->message = "m"; } }
dbus_bool_t dbus_error_is_set (const DBusError *e) { return e->name != 0; }
void bus_connection_remove_match_rule (DBusConnection *c, BusMatchRule *r) { }
dbus_bool_t bus_connection_add_match_rule (DBusConnection *c, BusMatchRule *r) { return 1; }
dbus_bool_t bus_connection_is_active (DBusConnection *c) { return 1; }
const char *bus_connection_get_name (DBusConnection *c) { return ":1.0"; }
void *_dbus_hash_table_lookup_string (DBusHashTable *h, const char *k) { return 0; }
dbus_bool_t _dbus_hash_table_remove_string (DBusHashTable *h, const char *k) { return 0; }
void _dbus_hash_iter_init (DBusHashTable *t, DBusHashIter *i) { }
dbus_bool_t _dbus_hash_iter_next (DBusHashIter *i) { return 0; }
void *_dbus_hash_iter_get_value (DBusHashIter *i) { return 0; }
void _dbus_hash_iter_remove_entry (DBusHashIter *i) { }
int dbus_message_type_from_string (const char *s) { return 0; }
static char stolen[6][N + 12]; static int n_stolen;
dbus_bool_t _dbus_string_steal_data (DBusString *s, char **out)
{ DBusRealString *r = (DBusRealString *) s; int i; VF_ASSERT (n_stolen < 6 && r->len < N + 12, "token pool"); for (i = 0; i < N + 12; i++) stolen[n_stolen][i] = i <= r->len ? (char) r->str[i] : 0; *out = stolen[n_stolen++]; r->len = 0; r->str[0] = 0; return 1; }
dbus_bool_t _dbus_string_append_byte (DBusString *s, unsigned char b)
{ DBusRealString *r = (DBusRealString *) s; VF_ASSERT (r->len + 1 < VF_STR_CAP - 8, "value buffer large enough (harness bound)"); r->str[r->len++] = b; r->str[r->len] = 0; return 1; }
static char dup_pool[4][N + 4]; static int n_dup;
char *_dbus_strdup (const char *s) { int i; if (!s) return 0; VF_ASSERT (n_dup < 4, "strdup pool"); for (i = 0; i < N + 4; i++) { dup_pool[n_dup][i] = s[i]; if (!s[i]) break; } return dup_pool[n_dup++]; }
void dbus_free (void *p) { }
void *dbus_malloc (size_t n) { void *p = malloc (n); VF_ASSUME (p != 0); return p; }
void *dbus_malloc0 (size_t n) { void *p = calloc (1, n); VF_ASSUME (p != 0); return p; }
void *dbus_realloc (void *q, size_t n) { void *p = realloc (q, n); VF_ASSUME (p != 0); return p; }
void dbus_free_string_array (char **a) { }

void harness (void)
{
  static char text[sizeof (KEYSTR) + 1 + N + 1]; static struct DBusConnection c; DBusString str; DBusError err; BusMatchRule *rule; int i, k = 0, spec; const unsigned char *v;
  for (i = 0; KEYSTR[i]; i++) text[k++] = KEYSTR[i];
  text[k++] = '=';
  v = (const unsigned char *) text + k;
#ifdef VALUE
  /* concrete value (job shape): a bounded run of the real parser; the symbolic-value form of this harness gives no verdict (tokenizer path explosion) */
  for (i = 0; i < N; i++) text[k++] = VALUE[i];
#else
  for (i = 0; i < N; i++) { char b = (char) vf_u8 (); VF_ASSUME (b != 0 && b != ',' && b != '\'' && b != '\\'); text[k++] = b; }
#endif
  text[k] = 0;
  _dbus_string_init_const_len (&str, text, k);
  err.name = 0; err.message = 0;
  rule = bus_match_rule_parse (&c, &str, &err);
#if REF == 0
  spec = (N > 0 && v[0] == ':') ? ref_unique_name_lenient (v, N) : ref_valid_bus_name_spec (v, N);
#elif REF == 1
  spec = ref_valid_interface (v, N);
#elif REF == 2
  spec = ref_valid_member (v, N);
#elif REF == 3
  spec = ref_valid_path (v, N);
#else
  spec = ref_valid_bus_namespace_wk (v, N);
#endif
  VF_ASSERT ((rule != 0) == (spec != 0), "the match-rule route accepts a value exactly when the grammar for that key accepts it (same verdict as the validation functions)");
  if (rule == 0) VF_ASSERT (vf_err_name && strcmp (vf_err_name, DBUS_ERROR_MATCH_RULE_INVALID) == 0, "a refused rule is MatchRuleInvalid");
  if (rule) VF_WITNESS_OPT ("a rule was accepted");
  if (!rule) VF_WITNESS_OPT ("a rule was refused");
  VF_WITNESS ("end of harness reached");
}
