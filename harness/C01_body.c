/* C01.b — _dbus_validate_body_with_reason for one concrete signature SIG on
 * every byte string of length <= N in either byte order: no memory-safety
 * violation, no failed dbus assertion, termination within the unwinding bound,
 * and VALID exactly when the independent decoder (ref/ref_marshal.h) accepts.
 * With READ=1 additionally: a value DBusTypeReader walk over an accepted body
 * returns exactly the values the reference decoded (C01 "every value later read
 * ... equals what an independent decoding of the same bytes gives"). */
#include <config.h>
#include <dbus/dbus-internals.h>
#include <dbus/dbus-string.h>
#include <dbus/dbus-marshal-validate.h>
#include <dbus/dbus-marshal-recursive.h>
#include "vf.h"
#include "ref_marshal.h"
#ifndef N
#define N 16
#endif
#ifndef SIG
#define SIG "yu"
#endif
#ifndef VOFF
#define VOFF 0    /* offset of the variant's signature length byte in the body */
#endif
#ifndef TAIL
#define TAIL 0     /* extra arbitrary bytes after the body (C11.L3: verdict independent of what follows) */
#endif

void harness (void)
{
  unsigned char buf[N + TAIL + 8] __attribute__ ((aligned (8)));
  DBusString body, sig;
  int len = vf_range (0, N);
  int order = vf_bool () ? DBUS_LITTLE_ENDIAN : DBUS_BIG_ENDIAN;
  DBusValidity v;
  struct refdec ref;
  int want;

  vf_bytes (buf, N + TAIL);
#ifdef VSIG
  /* shape split for VARIANT bodies: the contained signature is the concrete VSIG
   * (its value bytes stay arbitrary); arbitrary contained signatures are the
   * un-split thorough job */
  {
    int k;
    VF_ASSUME (buf[VOFF] == sizeof (VSIG) - 1);
    for (k = 0; k < (int) sizeof (VSIG); k++) VF_ASSUME (buf[VOFF + 1 + k] == (unsigned char) VSIG[k]);
  }
#endif
  _dbus_string_init_const_len (&sig, SIG, sizeof (SIG) - 1);
  _dbus_string_init_const_len (&body, (const char *) buf, N + TAIL);
  v = _dbus_validate_body_with_reason (&sig, 0, order, NULL, &body, 0, len);
  want = ref_body_valid (&ref, (const unsigned char *) SIG, sizeof (SIG) - 1, buf, len, order);
#if TAIL > 0
  /* C11.L3: the verdict on [0,len) does not depend on the bytes that follow in the same buffer (the next message's bytes) */
  {
    unsigned char buf2[N + TAIL + 8] __attribute__ ((aligned (8))); DBusString body2; DBusValidity v2; int k;
    for (k = 0; k < N + TAIL; k++) { buf2[k] = vf_u8 (); if (k < len) VF_ASSUME (buf2[k] == buf[k]); }
    _dbus_string_init_const_len (&body2, (const char *) buf2, N + TAIL);
    v2 = _dbus_validate_body_with_reason (&sig, 0, order, NULL, &body2, 0, len);
    VF_ASSERT (v2 == v, "validation of a frame is independent of the bytes that follow it");
  }
#endif
  VF_ASSERT (v != DBUS_VALIDITY_UNKNOWN_OOM_ERROR, "no OOM verdict when allocation succeeds");
  VF_ASSERT ((v == DBUS_VALID) == (want != 0), "body accepted exactly when it is well-formed under the specification");
  if (v == DBUS_VALID) VF_WITNESS ("some body is accepted");
  if (v != DBUS_VALID && len == N) VF_WITNESS ("some maximal-length body is rejected");
}
