/* C02.b — "converting a message to the other byte order changes no value":
 * for one concrete signature SIG and every body of <= N bytes that is
 * well-formed in order A (assumed through the independent decoder, not through
 * the implementation), the real _dbus_marshal_byteswap (A -> B) yields bytes that
 * (1) are well-formed in order B, (2) decode to exactly the same values, (3) are
 * accepted by the real validator, and (4) swapping back restores the original
 * bytes.  Memory-safety checks and dbus assertions are on. */
#include <config.h>
#include <dbus/dbus-internals.h>
#include <dbus/dbus-string.h>
#define DBUS_CAN_USE_DBUS_STRING_PRIVATE 1
#include <dbus/dbus-string-private.h>
#include <dbus/dbus-marshal-validate.h>
#include <dbus/dbus-marshal-byteswap.h>
#include "vf.h"
#include "ref_marshal.h"
#ifndef N
#define N 12
#endif
#ifndef SIG
#define SIG "yu"
#endif
static void init_inplace (DBusString *s, unsigned char *buf, int len, int cap)
{
  DBusRealString *r = (DBusRealString *) s;
  r->str = buf; r->len = len; r->allocated = cap; r->constant = 0; r->locked = 0; r->valid = 1; r->align_offset = 0;
}
void harness (void)
{
  unsigned char buf[N + 8] __attribute__ ((aligned (8))), orig[N + 8];
  DBusString body, sig; struct refdec ra, rb;
  int len = vf_range (0, N), i, a = vf_bool () ? 'l' : 'B', b;
  b = (a == 'l') ? 'B' : 'l';
  vf_bytes (buf, N); for (i = N; i < N + 8; i++) buf[i] = 0;
  for (i = 0; i < N + 8; i++) orig[i] = buf[i];
  VF_ASSUME (ref_body_valid (&ra, (const unsigned char *) SIG, sizeof (SIG) - 1, orig, len, a));     /* a well-formed body in order a */
  _dbus_string_init_const_len (&sig, SIG, sizeof (SIG) - 1);
  init_inplace (&body, buf, len, N + 8);
  _dbus_marshal_byteswap (&sig, 0, a, b, &body, 0);
  VF_ASSERT (ref_body_valid (&rb, (const unsigned char *) SIG, sizeof (SIG) - 1, buf, len, b), "the swapped body is well-formed in the other byte order");
  VF_ASSERT (ra.nvals == rb.nvals, "same number of values");
  for (i = 0; i < REF_MAXVALS; i++)
    if (i < ra.nvals)
      VF_ASSERT (ra.vals[i].type == rb.vals[i].type && ra.vals[i].u == rb.vals[i].u && ra.vals[i].str_off == rb.vals[i].str_off && ra.vals[i].str_len == rb.vals[i].str_len,
                 "byte-order conversion changes no value");
  VF_ASSERT (_dbus_validate_body_with_reason (&sig, 0, b, NULL, &body, 0, len) == DBUS_VALID, "the library's validator accepts the swapped body");
  _dbus_marshal_byteswap (&sig, 0, b, a, &body, 0);
  for (i = 0; i < N; i++) VF_ASSERT (buf[i] == orig[i], "swapping back restores the original bytes");
  if (len == N) VF_WITNESS_OPT ("a maximal-length body was swapped");
  if (ra.nvals >= 2) VF_WITNESS_OPT ("several values");
  VF_WITNESS ("end of harness reached");
}
