/* C07.b — "delivered to a connection exactly once if at least one match rule that
 * connection currently holds matches": the real bus_matchmaker_get_recipients /
 * get_recipients_from_list (bus/signals.c) over rule pools of concrete sizes
 * (L0 rules without type, L1 rules for the message's type; no interface key),
 * owners symbolic among 3 connections, rule contents symbolic (member key,
 * eavesdrop flag).  The recipient list must contain no connection twice, must
 * contain exactly the owners of rules that match (per match_rule_matches, whose
 * own correctness is C07.a), and never the addressed recipient. */
#include <config.h>
#undef DBUS_ENABLE_VERBOSE_MODE
#include <dbus/dbus-internals.h>
#include <stdlib.h>
#include <string.h>
#include "vf.h"
#include "msg_model.h"
struct DBusConnection { int id; int stamp; };
struct DBusHashTable { int dummy; };
#include "/repo/bus/signals.c"
#ifndef L0
#define L0 1
#endif
#ifndef L1
#define L1 1
#endif
static struct DBusConnection ca = { 0, 0 }, cb = { 1, 0 }, cc = { 2, 0 };
static struct DBusConnection *cp[3] = { &ca, &cb, &cc };
static int global_stamp = 5;
/* documented contract of the stamp pair (bus/connection.c) */
void bus_connections_increment_stamp (BusConnections *cs) { global_stamp++; }
dbus_bool_t bus_connection_mark_stamp (DBusConnection *c) { if (c->stamp == global_stamp) return FALSE; c->stamp = global_stamp; return TRUE; }
void *_dbus_hash_table_lookup_string (DBusHashTable *h, const char *k) { return 0; }
BusRegistry *bus_connection_get_registry (DBusConnection *c) { return 0; }
BusService *bus_registry_lookup (BusRegistry *r, const DBusString *s) { return 0; }
DBusConnection *bus_service_get_primary_owners_connection (BusService *s) { return 0; }
dbus_bool_t dbus_message_iter_init (DBusMessage *m, DBusMessageIter *i) { return 0; }
int dbus_message_iter_get_arg_type (DBusMessageIter *i) { return 0; }
void dbus_message_iter_get_basic (DBusMessageIter *i, void *v) { }
dbus_bool_t dbus_message_iter_next (DBusMessageIter *i) { return 0; }
static char members[4][3];
static BusMatchRule *mk (int i, int mtype)
{
  BusMatchRule *r = calloc (1, sizeof (BusMatchRule)); VF_ASSUME (r != 0);
  r->refcount = 1; r->matches_go_to = cp[vf_range (0, 2)];
  r->flags = (mtype ? BUS_MATCH_MESSAGE_TYPE : 0) | (vf_bool () ? BUS_MATCH_MEMBER : 0) | (vf_bool () ? BUS_MATCH_CLIENT_IS_EAVESDROPPING : 0);
  r->message_type = mtype;
  members[i][0] = (char) vf_u8 (); members[i][1] = (char) vf_u8 (); members[i][2] = 0;
  if (r->flags & BUS_MATCH_MEMBER) r->member = members[i];
  return r;
}
void harness (void)
{
  static BusMatchmaker mm; static struct DBusHashTable ht; static struct DBusMessage msg; static char ms[6][VF_STRMAX + 1];
  BusMatchRule *r[4]; DBusList *ln[4], *recipients = 0, *l; int i, n = L0 + L1, want[3] = { 0, 0, 0 }, got[3] = { 0, 0, 0 }, have_addr = vf_bool ();
  dbus_bool_t ok;
  vf_msg_symbolic (&msg, ms);
  msg.iface = 0;                                     /* shape: rules without interface key only */
  for (i = 0; i < DBUS_NUM_MESSAGE_TYPES; i++) mm.rules_by_type[i].rules_by_iface = &ht;
  for (i = 0; i < n; i++) { r[i] = mk (i, i < L0 ? 0 : msg.type); ln[i] = calloc (1, sizeof (DBusList)); VF_ASSUME (ln[i] != 0); ln[i]->data = r[i]; }
  for (i = 0; i < L0; i++) { ln[i]->next = ln[(i + 1) % L0]; ln[i]->prev = ln[(i + L0 - 1) % L0]; }
  for (i = 0; i < L1; i++) { ln[L0 + i]->next = ln[L0 + (i + 1) % L1]; ln[L0 + i]->prev = ln[L0 + (i + L1 - 1) % L1]; }
  mm.rules_by_type[0].rules_without_iface = L0 ? ln[0] : 0;
  mm.rules_by_type[msg.type].rules_without_iface = L1 ? ln[L0] : 0;
  ok = bus_matchmaker_get_recipients (&mm, 0, &ca, have_addr ? &cb : 0, &msg, &recipients);
  VF_ASSERT (ok, "no failure when memory is available");
  for (i = 0; i < n; i++)
    if (match_rule_matches (r[i], &ca, have_addr ? &cb : 0, &msg, 0)) want[r[i]->matches_go_to->id] = 1;
  if (have_addr) want[1] = 0;                         /* the addressed recipient gets the message anyway, never a second copy */
  for (l = _dbus_list_get_first_link (&recipients); l != 0; l = _dbus_list_get_next_link (&recipients, l))
    got[((DBusConnection *) l->data)->id]++;
  for (i = 0; i < 3; i++)
    {
      VF_ASSERT (got[i] <= 1, "no connection is listed twice");
      VF_ASSERT ((got[i] == 1) == (want[i] == 1), "a connection is a recipient exactly when one of its rules matches");
    }
  if (got[0] + got[1] + got[2] >= 2) VF_WITNESS_OPT ("two recipients");
  if (n >= 2 && want[0] && got[0] == 1 && r[0]->matches_go_to == r[n - 1]->matches_go_to) VF_WITNESS_OPT ("two matching rules of one connection, one delivery");
  VF_WITNESS ("end of harness reached");
}
