/* C14 (bus side, names) — out-of-memory at ANY single allocation point while the
 * real bus/services.c handles RequestName / ReleaseName / a disconnect:
 * the fault schedule is a solver variable (the k-th allocation — mempool, list
 * node, hook data, hash entry, owned-service link — or the j-th driver signal
 * send fails).  On failure: the error is NoMemory; after the transaction is
 * cancelled (hooks newest-first, as bus_transaction_cancel_and_free does) the
 * owner queue, flags, counters and the allocation balance are exactly as before;
 * retrying with memory available succeeds with the reference result. */
#include "bus_env.h"
#include "/repo/bus/services.c"
#include "ref_names_sm.h"
#include "services_env.h"
#ifndef QN
#define QN 2
#endif
#ifndef OP
#define OP 0
#endif
#ifndef KOOM
#define KOOM 0
#endif
#ifndef KSIG
#define KSIG 0
#endif
static BusRegistry reg; static struct DBusHashTable ht;
static BusService *svcp; static char *svc_name;
static int same_queue (const struct refq *q)
{
  DBusString name; BusService *s; DBusList *l; int i;
  _dbus_string_init_const (&name, "a.b");
  s = bus_registry_lookup (&reg, &name);
  if (q->n == 0) return s == 0;
  if (s == 0) return 0;
  l = _dbus_list_get_first_link (&s->owners);
  for (i = 0; i < q->n; i++)
    {
      BusOwner *o;
      if (l == 0) return 0;
      o = l->data;
      if (o->conn != vf_conn[q->conn[i]] || o->allow_replacement != (unsigned) q->ar[i] || o->do_not_queue != (unsigned) q->dnq[i]) return 0;
      l = _dbus_list_get_next_link (&s->owners, l);
    }
  return l == 0;
}
static dbus_bool_t run_op (int c, dbus_uint32_t flags, dbus_uint32_t *res, DBusError *err)
{
  DBusString name;
  _dbus_string_init_const (&name, "a.b");
#if OP == 0
  return bus_registry_acquire_service (&reg, vf_conn[c], &name, flags, res, (BusTransaction *) &reg, err);
#elif OP == 1
  return bus_registry_release_service (&reg, vf_conn[c], &name, res, (BusTransaction *) &reg, err);
#else
  *res = 1;
  return bus_service_remove_owner (svcp, vf_conn[c], (BusTransaction *) &reg, err);
#endif
}
void harness (void)
{
  BusOwner *ow[3] = { calloc (1, sizeof (BusOwner)), calloc (1, sizeof (BusOwner)), calloc (1, sizeof (BusOwner)) };
  DBusList *ln[3] = { calloc (1, sizeof (DBusList)), calloc (1, sizeof (DBusList)), calloc (1, sizeof (DBusList)) };
  struct refq q, q0; struct refev ev[REFEV_MAX]; int nev = 0;
  int n_before[VF_NCONN], i, j, c, live0, want;
  DBusError err; dbus_uint32_t res = 99, flags = vf_u32 (); dbus_bool_t ok; int f21 = 0;

  svcp = calloc (1, sizeof (BusService)); svc_name = malloc (4);
  VF_ASSUME (svcp && svc_name && ow[0] && ow[1] && ow[2] && ln[0] && ln[1] && ln[2]);
  svc_name[0] = 'a'; svc_name[1] = '.'; svc_name[2] = 'b'; svc_name[3] = 0;
  reg.refcount = 1; reg.context = (BusContext *) &reg; reg.service_hash = &ht; reg.service_pool = &vf_sp; reg.owner_pool = &vf_op;
  cfg_limit = 0x7fffffff; policy_allows_own = 1;
  q.n = QN;
  for (i = 0; i < VF_NCONN; i++) vf_conn[i]->n_owned = vf_range (0, 1000);
  if (QN > 0)
    {
      svcp->refcount = 1; svcp->registry = &reg; svcp->name = svc_name; vf_sp.n = 1; vf_op.n = QN;
      for (i = 0; i < QN; i++)
        {
          q.conn[i] = vf_range (0, VF_NCONN - 1);
          for (j = 0; j < i; j++) VF_ASSUME (q.conn[j] != q.conn[i]);
          q.ar[i] = vf_bool (); q.dnq[i] = vf_bool ();
          if (i > 0) VF_ASSUME (q.dnq[i] == 0);
          ow[i]->refcount = 1; ow[i]->service = svcp; ow[i]->conn = vf_conn[q.conn[i]];
          ow[i]->allow_replacement = q.ar[i]; ow[i]->do_not_queue = q.dnq[i];
          vf_conn[q.conn[i]]->n_owned++;
          ln[i]->data = ow[i]; ln[i]->next = ln[(i + 1) % QN]; ln[i]->prev = ln[(i + QN - 1) % QN];
        }
      svcp->owners = ln[0];
      ht.key[0] = svc_name; ht.val[0] = svcp; ht.used[0] = 1;
    }
  for (i = 0; i < VF_NCONN; i++) n_before[i] = vf_conn[i]->n_owned;
  q0 = q;
  c = vf_range (0, VF_NCONN - 1);
#if OP == 2
  VF_ASSUME (refq_find (&q, c) >= 0);
#endif
  dbus_error_init (&err);
  live0 = vf_live_blocks;
  /* the fault schedule */
  /* a single fault whose index is concrete per job (shape, R4): KOOM-th allocation or KSIG-th signal send */
  vf_alloc_calls = 0; vf_oom_at = KOOM; vf_signal_calls = 0; vf_signal_fail_at = KSIG;
  ok = run_op (c, flags, &res, &err);
  if (!ok)
    {
      VF_ASSERT (vf_oom_hit == 1 || (vf_signal_fail_at > 0 && vf_signal_calls >= vf_signal_fail_at), "the operation only fails because of the injected fault");
      VF_ASSERT (err.name && vf_err_is (err.name, DBUS_ERROR_NO_MEMORY), "the failure is reported as NoMemory");
      vf_transaction_cancel ();
      {
        /* F8: a requester that was already waiting in the queue has its entry updated in place (flags; position 2 with
         * REPLACE_EXISTING) by bus_service_add_owner() without an undo hook */
        int pos0 = refq_find (&q0, c);
        if (OP == 0 && pos0 > 0 && !same_queue (&q0))
          {
            struct refq qx = q0; int ar = (flags & 1) != 0, dnq = (flags & 4) != 0;
            if (flags & 2) { refq_remove_at (&qx, pos0); refq_insert_at (&qx, 1, c, ar, dnq); }
            else { qx.ar[pos0] = ar; qx.dnq[pos0] = dnq; }
            VF_ASSERT (same_queue (&qx), "after cancelling, the queue differs from before at most in the already-queued requester's own entry");
            VF_FINDING (0, "F8-queued-requester-update-not-undone-on-oom");
          }
        else
          VF_ASSERT (same_queue (&q0), "after cancelling, the owner queue (order and flags) is exactly as before");
      }
      for (i = 0; i < VF_NCONN; i++) VF_ASSERT (vf_conn[i]->n_owned == n_before[i] && vf_conn[i]->refs == 1, "owned-name counters and connection references are as before");
      VF_ASSERT (vf_live_blocks == live0, "nothing is leaked (allocation balance restored)");
      /* retry with memory available */
      vf_oom_at = 0; vf_signal_fail_at = 0; vf_nev = 0; dbus_error_init (&err);
      ok = run_op (c, flags, &res, &err);
      VF_ASSERT (ok && !err.name, "the retry with memory available succeeds");
      VF_WITNESS_OPT ("a fault was injected, rolled back and the operation retried");   /* optional: the operation may need fewer allocations than the fault index */
    }
  else
    VF_WITNESS_OPT ("operation completed (fault index beyond its allocations)");
#ifdef LATE
  /* the operation itself succeeded, but a LATER step of the same transaction (building or staging the method reply in the driver) fails for lack
   * of memory: bus_dispatch cancels the transaction, and "all previously observable state is exactly as it was" must hold for the name queue too */
  if (ok)
    {
      int pos0 = refq_find (&q0, c);
      vf_transaction_cancel ();
      /* representation invariant after the roll-back: every owner linked in the queue is alive (holds the queue's reference) */
      { DBusString nm_; BusService *s_; DBusList *l_; int k_ = 0; _dbus_string_init_const (&nm_, "a.b"); s_ = bus_registry_lookup (&reg, &nm_);
        if (s_) for (l_ = _dbus_list_get_first_link (&s_->owners); l_ != 0 && k_ < 4; l_ = _dbus_list_get_next_link (&s_->owners, l_), k_++)
          if (((BusOwner *) l_->data)->refcount < 1) f21 = 1;
        VF_FINDING (!f21, "F21-restored-owner-loses-its-queue-reference"); }
      if (OP == 0 && pos0 > 0 && !same_queue (&q0))
        {
          struct refq qx = q0; int ar = (flags & 1) != 0, dnq = (flags & 4) != 0;
          if (flags & 2) { refq_remove_at (&qx, pos0); refq_insert_at (&qx, 1, c, ar, dnq); }
          else { qx.ar[pos0] = ar; qx.dnq[pos0] = dnq; }
          VF_ASSERT (same_queue (&qx), "after cancelling, the queue differs from before at most in the already-queued requester's own entry");
          VF_FINDING (0, "F8-queued-requester-update-not-undone-on-oom");
        }
      else if (OP == 1 && pos0 > 0)
        {
          /* F20: a queued (non-primary) owner that releases the name is unlinked at once, without an undo hook */
          struct refq qx = q0; refq_remove_at (&qx, pos0);
          VF_ASSERT (same_queue (&qx) || same_queue (&q0), "after cancelling, the queue differs from before at most by the releasing waiter's own entry");
          VF_FINDING (same_queue (&q0), "F20-queued-release-not-undone-on-cancel");
          VF_WITNESS_OPT ("a queued waiter released the name and the transaction was cancelled");
        }
      else
        {
          VF_ASSERT (same_queue (&q0), "after cancelling a completed step, the owner queue (order and flags) is exactly as before");
          /* the counters and the allocation balance are consequences of F21 where it strikes (the owner block is freed and its owned-name entry dropped) */
          for (i = 0; i < VF_NCONN; i++) VF_ASSERT (f21 || (vf_conn[i]->n_owned == n_before[i] && vf_conn[i]->refs == 1), "owned-name counters and connection references are as before");
          VF_ASSERT (f21 || vf_live_blocks == live0, "nothing is leaked (allocation balance restored)");
        }
      VF_WITNESS_OPT ("a completed step was cancelled by a later failure of the same transaction");
      goto vf_end;
    }
#endif
  vf_transaction_commit ();
#if OP == 0
  want = ref_request_name (&q, c, flags, ev, &nev, 1);
#else
  want = ref_release_name (&q, c, ev, &nev);
#endif
  VF_ASSERT ((int) res == want || OP == 2, "result equals the reference result");
  VF_ASSERT (same_queue (&q), "final queue equals the reference queue");
vf_end:
  VF_WITNESS ("end of harness reached");
}
