/* C15 (send path) — the real do_writing loop of dbus/dbus-transport-socket.c with the
 * socket, the outgoing queue and the auth object stubbed: a message of header_len +
 * body_len bytes with n descriptors is written in arbitrary partial writes
 * (each write accepts 1..remaining bytes or fails with EAGAIN), starting from an
 * arbitrary resumption point.  Checked: descriptors accompany exactly the writes
 * that start at byte 0 of the message ("sent along with the first byte"), never a
 * continuation write, and only when fd passing was negotiated; the byte ranges
 * written are contiguous and never exceed the message; the message is reported
 * sent exactly when its last byte went out. */
#include <config.h>
#undef DBUS_ENABLE_VERBOSE_MODE
#include <dbus/dbus-internals.h>
#include <stdlib.h>
#include <string.h>
#include "vf.h"
struct DBusAuth { int fd_negotiated; };
#include "/repo/dbus/dbus-transport-socket.c"
#ifndef VF_MAXW
#define VF_MAXW 4
#endif
#define LEN(s) (((DBusString *) (s))->dummy2)
static DBusString hdr, bdy; static int n_fds, sent_calls, writes, bad_fd_write, bad_range, cur_off, queue_nonempty = 1, eagain_next;
static int tokmsg, fdsarr[4];
dbus_bool_t _dbus_transport_try_to_authenticate (DBusTransport *t) { return 1; }
dbus_bool_t _dbus_connection_has_messages_to_send_unlocked (DBusConnection *c) { return queue_nonempty; }
DBusMessage *_dbus_connection_get_message_to_send (DBusConnection *c) { return (DBusMessage *) &tokmsg; }
void dbus_message_lock (DBusMessage *m) { }
void _dbus_message_get_network_data (DBusMessage *m, const DBusString **h, const DBusString **b) { *h = &hdr; *b = &bdy; }
void _dbus_message_get_unix_fds (DBusMessage *m, const int **fds, unsigned *n) { *fds = fdsarr; *n = (unsigned) n_fds; }
int _dbus_string_get_length (const DBusString *s) { return LEN (s); }
dbus_bool_t _dbus_string_set_length (DBusString *s, int l) { LEN (s) = l; return 1; }
dbus_bool_t _dbus_string_compact (DBusString *s, int w) { return 1; }
dbus_bool_t _dbus_auth_needs_encoding (DBusAuth *a) { return 0; }
dbus_bool_t _dbus_auth_get_unix_fd_negotiated (DBusAuth *a) { return a->fd_negotiated; }
static int do_write (int off, int remaining, int with_fds)
{
  int n;
  writes++;
  if (off != cur_off || remaining <= 0 || off + remaining != LEN (&hdr) + LEN (&bdy)) bad_range++;
  if (with_fds && off != 0) bad_fd_write++;                       /* descriptors on a continuation write */
  if (!with_fds && off == 0 && n_fds > 0) bad_fd_write += 100;    /* first byte without its descriptors (when negotiated; checked below) */
  if (writes > VF_MAXW || vf_bool ()) { eagain_next = 1; return -1; }   /* at most VF_MAXW successful writes per call: bound */
  n = vf_range (1, 64); VF_ASSUME (n <= remaining);
  cur_off += n;
  return n;
}
int _dbus_write_socket_with_unix_fds_two (DBusSocket fd, const DBusString *b1, int s1, int l1, const DBusString *b2, int s2, int l2, const int *fds, int nf)
{ VF_ASSERT (nf == n_fds && s2 == 0, "the message's own descriptors"); return do_write (s1, l1 + l2, nf > 0); }
int _dbus_write_socket_two (DBusSocket fd, const DBusString *b1, int s1, int l1, const DBusString *b2, int s2, int l2) { return do_write (s1, l1 + l2, 0); }
int _dbus_write_socket (DBusSocket fd, const DBusString *b, int s, int l) { return do_write (LEN (&hdr) + s, l, 0); }
int _dbus_save_socket_errno (void) { return 11; }
dbus_bool_t _dbus_get_is_errno_eagain_or_ewouldblock (int e) { return 1; }
dbus_bool_t _dbus_get_is_errno_epipe (int e) { return 0; }
dbus_bool_t _dbus_get_is_errno_etoomanyrefs (int e) { return 0; }
void _dbus_connection_message_sent_unlocked (DBusConnection *c, DBusMessage *m) { sent_calls++; queue_nonempty = 0; }

void harness (void)
{
  static DBusTransportSocket st; static struct DBusAuth auth; int total, w0;
  LEN (&hdr) = vf_range (16, 40); VF_ASSUME (LEN (&hdr) % 8 == 0); LEN (&bdy) = vf_range (0, 24); total = LEN (&hdr) + LEN (&bdy);
  n_fds = vf_range (0, 3); auth.fd_negotiated = vf_bool ();
  VF_ASSUME (auth.fd_negotiated || n_fds == 0);                  /* a message with descriptors is only queued on a connection that negotiated them (dispatch check, C05) */
  st.base.auth = &auth; st.base.connection = (DBusConnection *) &tokmsg; st.max_bytes_written_per_iteration = 2048;
  st.message_bytes_written = w0 = vf_range (0, 63); VF_ASSUME (w0 < total);      /* resumption point of an earlier partial write */
  cur_off = w0;
  VF_ASSERT (do_writing (&st.base), "no failure when memory is available");
  VF_ASSERT (bad_range == 0, "every write continues exactly where the previous one stopped and never goes past the message");
  VF_ASSERT (bad_fd_write % 100 == 0, "descriptors never accompany a continuation write (they would arrive twice)");
  if (auth.fd_negotiated) VF_ASSERT (bad_fd_write < 100, "the write carrying the first byte carries the message's descriptors");
  VF_ASSERT (sent_calls == (cur_off == total ? 1 : 0), "the message leaves the queue exactly when its last byte was written");
  VF_ASSERT (st.message_bytes_written == (cur_off == total ? 0 : cur_off), "the resumption point is the number of bytes written so far");
  if (writes >= 3 && sent_calls == 1) VF_WITNESS_OPT ("message written in three or more pieces");
  if (w0 == 0 && n_fds > 0 && sent_calls == 1) VF_WITNESS_OPT ("descriptors sent with the first byte");
  VF_WITNESS ("end of harness reached");
}
