/* Shared environment for bus-side one-step harnesses (R1, R3, R7).  Included by the
 * harness TU *before* the real bus .c file; every function here is a stub of
 * something the unit under test imports from another TU. */
#ifndef VF_BUS_ENV_H
#define VF_BUS_ENV_H
#include <config.h>
#include <dbus/dbus-internals.h>
#include <dbus/dbus-memory.h>
#include <stdlib.h>
#include <string.h>
#include "vf.h"
extern int vf_alloc_calls, vf_oom_at, vf_oom_at2, vf_oom_hit, vf_live_blocks;
static int vf_alloc_fails (void)
{
  vf_alloc_calls++;
  if ((vf_oom_at > 0 && vf_alloc_calls == vf_oom_at) || (vf_oom_at2 > 0 && vf_alloc_calls == vf_oom_at2)) { vf_oom_hit++; return 1; }
  return 0;
}
/* typed allocation so that objects are structs, not byte arrays (R3) */
static void *vf_count_alloc (void *p) { if (p) vf_live_blocks++; return p; }
#undef dbus_new
#undef dbus_new0
#define dbus_new(type, count) (vf_alloc_fails () ? (type *) 0 : (type *) vf_count_alloc (malloc (sizeof (type) * (count))))
#define dbus_new0(type, count) (vf_alloc_fails () ? (type *) 0 : (type *) vf_count_alloc (calloc ((count), sizeof (type))))

#include <dbus/dbus-hash.h>
#include <dbus/dbus-list.h>
#include <dbus/dbus-mempool.h>
#include <dbus/dbus-string.h>
#include <dbus/dbus-connection.h>
#include "bus/bus.h"
#include "bus/connection.h"
#include "bus/services.h"
#include "bus/driver.h"
#include "bus/activation.h"
#include "bus/policy.h"
#include "bus/selinux.h"
#include "bus/apparmor.h"

/* ---- connections: tokens with ghost counters ---- */
#define VF_NCONN 4
struct DBusConnection { int id; int refs; int n_owned; int active; };
static struct DBusConnection vf_c0 = { 0, 1, 0, 1 }, vf_c1 = { 1, 1, 0, 1 }, vf_c2 = { 2, 1, 0, 1 }, vf_c3 = { 3, 1, 0, 1 };
static struct DBusConnection *vf_conn[VF_NCONN] = { &vf_c0, &vf_c1, &vf_c2, &vf_c3 };
static const char *vf_conn_name[VF_NCONN] = { ":1.0", ":1.1", ":1.2", ":1.3" };
static int vf_conn_idx_by_name (const char *n)
{ int i; if (!n) return -1; for (i = 0; i < VF_NCONN; i++) if (n == vf_conn_name[i]) return i; return -2; }

/* ---- errors: record the name ---- */
static int vf_err_set; static const char *vf_err_name;
void dbus_set_error (DBusError *e, const char *name, const char *fmt, ...) { vf_err_set++; vf_err_name = name; if (e) { e->name = name; e->message = "m"; } }
void dbus_set_error_const (DBusError *e, const char *name, const char *m) { vf_err_set++; vf_err_name = name; if (e) { e->name = name; e->message = m; } }
void dbus_error_init (DBusError *e) { e->name = 0; e->message = 0; }
void dbus_error_free (DBusError *e) { e->name = 0; e->message = 0; }
dbus_bool_t dbus_error_is_set (const DBusError *e) { return e->name != 0; }
dbus_bool_t dbus_error_has_name (const DBusError *e, const char *n);
void dbus_move_error (DBusError *s, DBusError *d) { if (d) { *d = *s; } s->name = 0; s->message = 0; }
const char bus_no_memory_message[] = "oom";
/* compare error names (bounded: D-Bus error names used by the bus are < 64 bytes) */
static int vf_err_is (const char *a, const char *b)
{ int i; for (i = 0; i < 64; i++) { if (a[i] != b[i]) return 0; if (!a[i]) return 1; } return 0; }
dbus_bool_t dbus_error_has_name (const DBusError *e, const char *n) { return e->name && vf_err_is (e->name, n); }

/* ---- R7: string-keyed hash table = 2-slot association ---- */
struct DBusHashTable { const char *key[2]; void *val[2]; int used[2]; };
struct DBusPreallocatedHash { int x; };
static int vf_hash_find (DBusHashTable *h, const char *k)
{ int i; for (i = 0; i < 2; i++) if (h->used[i] && strcmp (h->key[i], k) == 0) return i; return -1; }
void *_dbus_hash_table_lookup_string (DBusHashTable *h, const char *k) { int i = vf_hash_find (h, k); return i < 0 ? 0 : h->val[i]; }
static void vf_hash_put (DBusHashTable *h, char *k, void *v)
{
  int i = vf_hash_find (h, k);
  if (i < 0) { i = h->used[0] ? 1 : 0; VF_ASSERT (!h->used[i], "hash model capacity (2 names)"); }
  h->key[i] = k; h->val[i] = v; h->used[i] = 1;
}
dbus_bool_t _dbus_hash_table_insert_string (DBusHashTable *h, char *k, void *v)
{ if (vf_alloc_fails ()) return FALSE; vf_hash_put (h, k, v); return TRUE; }
dbus_bool_t _dbus_hash_table_remove_string (DBusHashTable *h, const char *k)
{ int i = vf_hash_find (h, k); if (i < 0) return FALSE; h->used[i] = 0; return TRUE; }
DBusPreallocatedHash *_dbus_hash_table_preallocate_entry (DBusHashTable *h)
{ return dbus_new (struct DBusPreallocatedHash, 1); }
void _dbus_hash_table_free_preallocated_entry (DBusHashTable *h, DBusPreallocatedHash *p) { vf_live_blocks--; free (p); }
void _dbus_hash_table_insert_string_preallocated (DBusHashTable *h, DBusPreallocatedHash *p, char *k, void *v)
{ vf_live_blocks--; free (p); vf_hash_put (h, k, v); }
int _dbus_hash_table_get_n_entries (DBusHashTable *h) { return h->used[0] + h->used[1]; }

/* ---- transaction: records cancel hooks (connection.c harness checks that they are run LIFO) ---- */
#define VF_NHOOK 6
struct vf_hook { BusTransactionCancelFunction f; void *d; DBusFreeFunction fr; };
static struct vf_hook vf_hooks[VF_NHOOK]; static int vf_nhooks;
dbus_bool_t bus_transaction_add_cancel_hook (BusTransaction *t, BusTransactionCancelFunction f, void *d, DBusFreeFunction fr)
{
  if (vf_alloc_fails ()) return FALSE;
  VF_ASSERT (vf_nhooks < VF_NHOOK, "hook log capacity");
  vf_hooks[vf_nhooks].f = f; vf_hooks[vf_nhooks].d = d; vf_hooks[vf_nhooks].fr = fr; vf_nhooks++;
  return TRUE;
}
/* The harness TU defines, after including the real .c file,
 *   static void vf_hook_cancel (struct vf_hook *h);   -- h->f (h->d), dispatched by explicit comparison
 *   static void vf_hook_free (struct vf_hook *h);     -- h->fr (h->d)
 * (explicit dispatch keeps CBMC's function-pointer removal from fanning out over
 * every void(*)(void*) in the program). */
static void vf_hook_cancel (struct vf_hook *h);
static void vf_hook_free (struct vf_hook *h);
/* what bus_transaction_execute_and_free does with the hooks: free data, do not cancel */
static void vf_transaction_commit (void)
{ int i; for (i = 0; i < vf_nhooks; i++) vf_hook_free (&vf_hooks[i]); vf_nhooks = 0; }
/* what bus_transaction_cancel_and_free does: newest first, cancel then free */
static void vf_transaction_cancel (void)
{ int i; for (i = vf_nhooks - 1; i >= 0; i--) { vf_hook_cancel (&vf_hooks[i]); vf_hook_free (&vf_hooks[i]); } vf_nhooks = 0; }

/* ---- driver signals: ghost trace ---- */
#define VF_NEV 8
struct vf_ev { int kind; int a; int b; };
static struct vf_ev vf_evlog[VF_NEV]; static int vf_nev;
static int vf_signal_fail_at;   /* k-th driver send fails with NoMemory (0 = never) */
static int vf_signal_calls;
static dbus_bool_t vf_log_ev (int k, int a, int b, DBusError *e)
{
  vf_signal_calls++;
  if (vf_signal_fail_at > 0 && vf_signal_calls == vf_signal_fail_at) { dbus_set_error_const (e, DBUS_ERROR_NO_MEMORY, "oom"); return FALSE; }
  VF_ASSERT (vf_nev < VF_NEV, "event log capacity");
  vf_evlog[vf_nev].kind = k; vf_evlog[vf_nev].a = a; vf_evlog[vf_nev].b = b; vf_nev++;
  return TRUE;
}
#endif
