/* Environment of bus/services.c shared by the C04 / C13 / C14 / C16.e harnesses.
 * Included after bus_env.h and after /repo/bus/services.c. */
#ifndef VF_SERVICES_ENV_H
#define VF_SERVICES_ENV_H
/* ---- pools: typed allocation by pool identity ---- */
struct DBusMemPool { int n; };
static struct DBusMemPool vf_sp, vf_op;
void *_dbus_mem_pool_alloc (DBusMemPool *p)
{
  void *m;
  if (vf_alloc_fails ()) return 0;
  if (p == &vf_op) m = calloc (1, sizeof (BusOwner));
  else if (p == &vf_sp) m = calloc (1, sizeof (BusService));
  else m = calloc (1, sizeof (DBusList));
  VF_ASSUME (m != 0);
  p->n++; vf_live_blocks++;
  return m;
}
dbus_bool_t _dbus_mem_pool_dealloc (DBusMemPool *p, void *e)
{ if (__CPROVER_DYNAMIC_OBJECT (e)) { free (e); vf_live_blocks--; } p->n--; return p->n == 0; }
DBusMemPool *_dbus_mem_pool_new (int element_size, dbus_bool_t zero_elements) { static struct DBusMemPool lp; return &lp; }
void _dbus_mem_pool_free (DBusMemPool *p) { }
dbus_bool_t _dbus_lock (DBusGlobalLock l) { return 1; }
void _dbus_unlock (DBusGlobalLock l) { }

/* ---- bus environment ---- */
static int cfg_limit, policy_allows_own;
int bus_context_get_max_services_per_connection (BusContext *c) { return cfg_limit; }
BusActivation *bus_context_get_activation (BusContext *c) { return 0; }
const char *bus_context_get_type (BusContext *c) { return "session"; }
void bus_context_log (BusContext *c, DBusSystemLogSeverity s, const char *m, ...) { }
/* Held auto-start messages exist only for a name that had no owner before this request (activation is only
 * triggered for unowned names and every acquisition flushes them): the flush can run out of memory only then. */
dbus_bool_t bus_activation_send_pending_auto_activation_messages (BusActivation *a, BusService *s, BusTransaction *t)
{
#if defined(QN) && QN == 0
  return !vf_alloc_fails ();
#else
  return TRUE;
#endif
}
dbus_bool_t bus_activation_service_created (BusActivation *a, const char *n, BusTransaction *t, DBusError *e) { return 1; }
dbus_bool_t bus_apparmor_allows_acquire_service (DBusConnection *c, const char *t, const char *n, DBusError *e) { return 1; }
dbus_bool_t bus_selinux_allows_acquire_service (DBusConnection *c, BusSELinuxID *s, const char *n, DBusError *e) { return 1; }
BusSELinuxID *bus_selinux_id_table_lookup (DBusHashTable *t, const DBusString *s) { return 0; }
dbus_bool_t bus_client_policy_check_can_own (BusClientPolicy *p, const DBusString *s) { return policy_allows_own; }
static int vf_dummy_policy;
BusClientPolicy *bus_connection_get_policy (DBusConnection *c) { return (BusClientPolicy *) &vf_dummy_policy; }
dbus_bool_t bus_connection_is_active (DBusConnection *c) { return 1; }
const char *bus_connection_get_name (DBusConnection *c) { return vf_conn_name[c->id]; }
int bus_connection_get_n_services_owned (DBusConnection *c) { return c->n_owned; }
dbus_bool_t bus_connection_add_owned_service (DBusConnection *c, BusService *s) { if (vf_alloc_fails ()) return FALSE; c->n_owned++; return 1; }
void bus_connection_add_owned_service_link (DBusConnection *c, DBusList *l) { c->n_owned++; _dbus_list_free_link (l); }
void bus_connection_remove_owned_service (DBusConnection *c, BusService *s) { c->n_owned--; }
DBusConnection *dbus_connection_ref (DBusConnection *c) { c->refs++; return c; }
void dbus_connection_unref (DBusConnection *c) { c->refs--; }
dbus_bool_t bus_driver_send_service_acquired (DBusConnection *c, const char *n, BusTransaction *t, DBusError *e) { return vf_log_ev (1, c->id, 0, e); }
dbus_bool_t bus_driver_send_service_lost (DBusConnection *c, const char *n, BusTransaction *t, DBusError *e) { return vf_log_ev (2, c->id, 0, e); }
dbus_bool_t bus_driver_send_service_owner_changed (const char *n, const char *o, const char *nw, BusTransaction *t, DBusError *e)
{ return vf_log_ev (3, vf_conn_idx_by_name (o), vf_conn_idx_by_name (nw), e); }

static void vf_hook_cancel (struct vf_hook *h)
{
  if (h->f == cancel_ownership) cancel_ownership (h->d);
  else if (h->f == restore_ownership) restore_ownership (h->d);
  else VF_ASSERT (0, "unknown cancel hook");
}
static void vf_hook_free (struct vf_hook *h)
{
  if (h->fr == free_ownership_cancel_data) free_ownership_cancel_data (h->d);
  else if (h->fr == free_ownership_restore_data) free_ownership_restore_data (h->d);
  else VF_ASSERT (h->fr == 0, "unknown hook free function");
}
#endif
