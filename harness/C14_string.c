/* C14 (library side) — DBusString editing primitives under allocation failure: the real _dbus_string_replace_len /
 * _dbus_string_copy_len / _dbus_string_insert_bytes / _dbus_string_append on REAL heap strings (dbus-string.c with its own
 * _dbus_string_init and reallocate path), with the k-th allocation failing (k = job shape KOOM, 0 = none).
 * Shape: destination length DL, source length SL, operation and its positions concrete; every byte symbolic.
 *   returns FALSE  =>  the destination's length and every byte of it are exactly as before, the source too ("reports
 *                      out-of-memory and leaves all previously observable state as it was"), and a retry with memory succeeds
 *   returns TRUE   =>  the destination is the spliced result an independent byte-array model computes.
 * malloc is modelled as returning 8-aligned blocks (_DBUS_ALIGN_ADDRESS is the identity: R19), so positions stay constants. */
#include <config.h>
#undef DBUS_ENABLE_VERBOSE_MODE
#include <dbus/dbus-internals.h>
#include "vf.h"
#undef _DBUS_ALIGN_ADDRESS
#define _DBUS_ALIGN_ADDRESS(this, boundary) ((void *) (this))
#include "/repo/dbus/dbus-string.c"
extern int vf_oom_at, vf_oom_hit, vf_alloc_calls;
#ifndef OP
#define OP 0            /* 0 replace_len, 1 copy_len (insert), 2 insert_bytes, 3 append (C string of SL bytes) */
#endif
#ifndef DL
#define DL 6
#endif
#ifndef SL
#define SL 5
#endif
#ifndef AT
#define AT 2            /* position in the destination */
#endif
#ifndef RL
#define RL 1            /* bytes replaced (OP 0) */
#endif
#ifndef SS
#define SS 1            /* start in the source */
#endif
#ifndef LEN
#define LEN 3           /* bytes taken from the source */
#endif
#ifndef KOOM
#define KOOM 0
#endif
#define MAXL 40
static int do_op (DBusString *src, DBusString *dst, const char *cs)
{
#if OP == 0
  return _dbus_string_replace_len (src, SS, LEN, dst, AT, RL);
#elif OP == 1
  return _dbus_string_copy_len (src, SS, LEN, dst, AT);
#elif OP == 2
  return _dbus_string_insert_bytes (dst, AT, LEN, 0x5a);
#else
  return _dbus_string_append (dst, cs);
#endif
}
void harness (void)
{
  DBusString src, dst; unsigned char d0[DL + 1], s0[SL + 1], exp[MAXL]; static char cs[SL + 1]; int i, n = 0, explen; dbus_bool_t ok; DBusRealString *rd, *rs;
  VF_ASSUME (_dbus_string_init (&src) && _dbus_string_init (&dst));
  for (i = 0; i < DL; i++) { d0[i] = vf_u8 (); VF_ASSUME (_dbus_string_append_byte (&dst, d0[i])); }
  for (i = 0; i < SL; i++) { s0[i] = vf_u8 (); cs[i] = (char) (s0[i] | 1); s0[i] = OP == 3 ? (unsigned char) cs[i] : s0[i]; VF_ASSUME (_dbus_string_append_byte (&src, s0[i])); }
  cs[SL] = 0;
  /* model */
#if OP == 0
  for (i = 0; i < AT; i++) exp[n++] = d0[i]; for (i = 0; i < LEN; i++) exp[n++] = s0[SS + i]; for (i = AT + RL; i < DL; i++) exp[n++] = d0[i];
#elif OP == 1
  for (i = 0; i < AT; i++) exp[n++] = d0[i]; for (i = 0; i < LEN; i++) exp[n++] = s0[SS + i]; for (i = AT; i < DL; i++) exp[n++] = d0[i];
#elif OP == 2
  for (i = 0; i < AT; i++) exp[n++] = d0[i]; for (i = 0; i < LEN; i++) exp[n++] = 0x5a; for (i = AT; i < DL; i++) exp[n++] = d0[i];
#else
  for (i = 0; i < DL; i++) exp[n++] = d0[i]; for (i = 0; i < SL; i++) exp[n++] = (unsigned char) cs[i];
#endif
  explen = n;
  vf_oom_at = KOOM ? vf_alloc_calls + KOOM : 0; vf_oom_hit = 0;
  ok = do_op (&src, &dst, cs);
  rd = (DBusRealString *) &dst; rs = (DBusRealString *) &src;
  VF_ASSERT (rs->len == SL, "the source keeps its length"); for (i = 0; i < SL; i++) VF_ASSERT (rs->str[i] == s0[i], "the source is never modified");
  if (!ok)
    {
      VF_ASSERT (vf_oom_hit > 0, "failure only when an allocation failed");
      VF_ASSERT (rd->len == DL && rd->str[DL] == 0, "after a failed edit the destination has its old length (NUL-terminated)");
      for (i = 0; i < DL; i++) VF_ASSERT (rd->str[i] == d0[i], "after a failed edit every byte of the destination is as before");
      vf_oom_at = 0;
      VF_ASSERT (do_op (&src, &dst, cs), "the same edit succeeds when retried with memory available");
      VF_WITNESS_OPT ("edit failed for lack of memory, then succeeded on retry");
    }
  VF_ASSERT (rd->len == explen && rd->str[explen] == 0, "the edited destination has the spliced length");
  for (i = 0; i < explen; i++) VF_ASSERT (rd->str[i] == exp[i], "the edited destination is the splice of old destination and source bytes");
  VF_WITNESS ("end of harness reached");
}
