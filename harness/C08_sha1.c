/* C08 (DBUS_COOKIE_SHA1 acceptance) — the real sha1_handle_second_client_response /
 * sha1_compute_hash / send_ok / send_rejected of dbus-auth.c over REAL DBusStrings
 * (dbus-string.c linked), with the keyring and SHA-1 stubbed: the digest is H
 * solver-chosen hex characters recorded in a ghost array.  The client's DATA payload
 * is L symbolic bytes.  Checked: the server answers OK exactly when the payload is
 * "<non-empty challenge><blanks><hash>" with <hash> byte-for-byte EQUAL to the whole
 * digest (not a prefix, not a longer string) and the cookie id was valid; every other
 * payload is REJECTED and counted. */
#include <config.h>
#undef DBUS_ENABLE_VERBOSE_MODE
#include <dbus/dbus-internals.h>
#include <stdlib.h>
#include <string.h>
#include "vf.h"
#ifndef L
#define L 7
#endif
#ifndef H
#define H 3
#endif
#ifndef BL
#define BL 3
#define NB 1
#endif
#ifndef KEY
#define KEY 2
#endif
#define ISBLANK(c) ((c) == ' ' || (c) == '\t')
#ifndef CONTRACT
#define _dbus_string_find_blank vf_real_find_blank
#define _dbus_string_skip_blank vf_real_skip_blank
#endif
#include "pool_strings.h"
#ifndef CONTRACT
#undef _dbus_string_find_blank
#undef _dbus_string_skip_blank
/* The two blank scanners are replaced by their contract with CONCRETE answers (BL = index of the first blank or -1, NB = length of
 * the blank run): every later string position is then a constant (R19).  The contract is checked against the real scanners for
 * every string of L bytes by the twin job built with -DCONTRACT. */
static const void *vf_data;
dbus_bool_t _dbus_string_find_blank (const DBusString *s, int start, int *found)
{ VF_ASSERT (s == vf_data && start == 0, "scanner called on the payload from 0"); if (found) *found = BL >= 0 ? BL : L; return BL >= 0; }
void _dbus_string_skip_blank (const DBusString *s, int start, int *end)
{ VF_ASSERT (s == vf_data && start == BL && BL >= 0, "blank run skipped from the first blank"); *end = BL + NB; }
#endif
#include "/repo/dbus/dbus-auth.c"
struct DBusCredentials { int kind; };
static struct DBusCredentials c_socket, c_authorized, c_desired; static int authorized_set, key_kind; static char gh[H];
dbus_bool_t _dbus_credentials_are_anonymous (DBusCredentials *c) { return 0; }
void _dbus_credentials_clear (DBusCredentials *c) { if (c == &c_authorized) authorized_set = 0; }
dbus_bool_t _dbus_credentials_add_credentials (DBusCredentials *dst, DBusCredentials *src) { if (dst == &c_authorized) { VF_ASSERT (src == &c_desired, "the identity the cookie belongs to is what gets authorized"); authorized_set = 1; } return 1; }
dbus_bool_t _dbus_credentials_add_credential (DBusCredentials *dst, DBusCredentialType which, DBusCredentials *src) { return 1; }
struct DBusKeyring { int x; };
dbus_bool_t _dbus_keyring_get_hex_key (DBusKeyring *k, int id, DBusString *hex)
{ if (key_kind == 0) return 0; if (key_kind == 1) return 1; /* unknown cookie id: empty key */ return _dbus_string_append (hex, "5a"); }
dbus_bool_t _dbus_sha_compute (const DBusString *data, DBusString *out)
{ int i; for (i = 0; i < H; i++) { char c = (char) vf_u8 (); VF_ASSUME ((c >= '0' && c <= '9') || (c >= 'a' && c <= 'f')); gh[i] = c; if (!_dbus_string_append_byte (out, (unsigned char) c)) return 0; } return 1; }
void _dbus_keyring_unref (DBusKeyring *k) { }

void harness (void)
{
  static DBusAuthServer srv; DBusAuth *auth = &srv.base; static struct DBusKeyring ring; static char d[L + 1]; DBusString data;
  int i, blank = -1, hs, failures0; dbus_bool_t ok, expect;
  auth->refcount = 1; auth->side = auth_side_server; auth->credentials = &c_socket; auth->authorized_identity = &c_authorized; auth->desired_identity = &c_desired;
  auth->state = &server_state_waiting_for_data; auth->mech = &all_mechanisms[1]; auth->keyring = &ring; auth->cookie_id = 1;
  VF_ASSERT (auth->mech->server_data_func == handle_server_data_cookie_sha1_mech, "mechanism table entry 1 is DBUS_COOKIE_SHA1");
  VF_ASSUME (_dbus_string_init (&auth->outgoing) && _dbus_string_init (&auth->identity) && _dbus_string_init (&auth->challenge) && _dbus_string_init (&auth->incoming) && _dbus_string_init (&srv.guid));
  VF_ASSUME (_dbus_string_append (&auth->challenge, "c1") && _dbus_string_append (&auth->identity, "u"));
  srv.max_failures = 6; srv.failures = failures0 = vf_range (0, 5);
  key_kind = KEY;      /* job shape: 0 keyring failure, 1 unknown cookie id (empty key), 2 key found */
  for (i = 0; i < L; i++) d[i] = (char) vf_u8 ();
  /* job shape: first blank at BL (none if -1), blank run of NB bytes */
  for (i = 0; i < L; i++) { if (BL < 0 || i < BL) VF_ASSUME (!ISBLANK (d[i])); else if (i < BL + NB) VF_ASSUME (ISBLANK (d[i])); else if (i == BL + NB) VF_ASSUME (!ISBLANK (d[i])); }
  _dbus_string_init_const_len (&data, d, L);
  blank = BL; hs = BL + NB;
#ifdef CONTRACT
  { int f = -7, e2 = -7; dbus_bool_t r = _dbus_string_find_blank (&data, 0, &f);
    VF_ASSERT (r == (BL >= 0) && f == (BL >= 0 ? BL : L), "find_blank reports the first blank, or the length when there is none");
    if (BL >= 0) { _dbus_string_skip_blank (&data, f, &e2); VF_ASSERT (e2 == BL + NB, "skip_blank stops at the first non-blank"); }
    VF_WITNESS ("end of harness reached"); return; }
#else
  vf_data = &data;
  expect = blank > 0 && key_kind == 2 && L - hs == H;
  if (expect) for (i = 0; i < H; i++) if (hs + i < L) { /* digest is chosen later: compare after the call */ }

  ok = sha1_handle_second_client_response (auth, &data);

  VF_ASSERT (ok || key_kind == 0, "no failure when memory and the keyring are available");
  if (expect) for (i = 0; i < H; i++) if (d[hs + i] != gh[i]) expect = 0;
  if (auth->state == &server_state_waiting_for_begin)
    {
      VF_ASSERT (expect, "OK only when the client's hash equals the whole digest for a valid cookie and a non-empty client challenge");
      VF_ASSERT (authorized_set && ok && srv.failures == failures0, "OK records the identity");
#if KEY == 2 && BL > 0 && (L - BL - NB) == H
      VF_WITNESS ("cookie accepted");
#else
      VF_WITNESS_OPT ("cookie accepted");
#endif
    }
  else if (ok)
    {
      VF_ASSERT (!expect, "the correct response is accepted");
      VF_ASSERT (srv.failures == failures0 + 1 && !authorized_set && auth->mech == 0 && _dbus_string_get_length (&auth->identity) == 0, "a wrong response is REJECTED, counted, and forgets the identity");
      VF_ASSERT (auth->state == (srv.failures >= srv.max_failures ? &common_state_need_disconnect : &server_state_waiting_for_auth), "and disconnects after max_failures");
      if (blank > 0 && key_kind == 2 && L - hs < H && L - hs > 0) VF_WITNESS_OPT ("shorter-than-digest hash rejected");
#if KEY != 0
      VF_WITNESS ("cookie response rejected");
#endif
    }
  VF_WITNESS ("end of harness reached");
#endif
}
