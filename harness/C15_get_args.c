/* C15 (recipient side, library) — the real _dbus_message_iter_get_args_valist (dbus/dbus-message.c):
 * the application takes the descriptors out of a received message.  The message's argument
 * types (MSG) and the types the caller asks for (SPEC) are job shape; the descriptor indices
 * carried in the body, the number of descriptors attached and the failure of any dup() are
 * solver variables.  Descriptors are identities, the kernel table is the ghost open_[]:
 *  - success exactly when every asked type equals the message's, every index is below the
 *    number of attached descriptors and every dup() worked;
 *  - on success the k-th 'h' output is a fresh open duplicate of message->unix_fds[index_k]
 *    ("the same open files, in the same order"), other outputs are the values read;
 *  - on failure an error is set, every descriptor duplicated by this call is closed exactly once
 *    (none leaks to a caller who was told the call failed) and the outputs handed back for them are -1;
 *  - the message's own descriptors are never closed or changed by reading it. */
#include <config.h>
#undef DBUS_ENABLE_VERBOSE_MODE
#include <dbus/dbus-internals.h>
#include <dbus/dbus-memory.h>
#include <stdlib.h>
#include <string.h>
#include <stdarg.h>
#include "vf.h"
#include "/repo/dbus/dbus-message.c"
#ifndef MSG
#define MSG "hh"
#endif
#ifndef SPEC
#define SPEC "hh"
#endif
#define NARG ((int) sizeof (MSG) - 1)
#define NSPEC ((int) sizeof (SPEC) - 1)
#define NFD 4
static const char msg_t[] = MSG; static const char spec_t[] = SPEC "\0\0\0\0";
static dbus_uint32_t val[8];              /* the value of each argument: for 'h' the index into the attached descriptors */
static int rpos;                          /* ghost reader position */
/* ---- the type reader over the body: a ghost cursor over MSG (C01.b / C02.c decide the real reader) ---- */
int _dbus_type_reader_get_current_type (const DBusTypeReader *r) { return rpos < NARG ? msg_t[rpos] : DBUS_TYPE_INVALID; }
void _dbus_type_reader_read_basic (const DBusTypeReader *r, void *value) { VF_ASSERT (rpos < NARG, "only existing values are read"); *(dbus_uint32_t *) value = val[rpos]; }
dbus_bool_t _dbus_type_reader_next (DBusTypeReader *r) { if (rpos < NARG) rpos++; return rpos < NARG; }
char _dbus_header_get_byte_order (const DBusHeader *h) { return DBUS_COMPILER_BYTE_ORDER; }
const char *_dbus_type_to_string (int t) { return "t"; }
/* ---- errors: a flag ---- */
static int err_set;
void dbus_set_error (DBusError *e, const char *name, const char *fmt, ...) { err_set++; }
void dbus_error_init (DBusError *e) { e->name = 0; e->message = 0; }
/* ---- the kernel's descriptor table ---- */
static int open_[3 * NFD], n_dups, fail_dup_at, double_close, orig_close, dup_of[3 * NFD];
int _dbus_dup (int fd, DBusError *e)
{ int d; VF_ASSERT (fd >= 100 && fd < 100 + NFD && open_[fd - 100], "only descriptors attached to the message are duplicated");
  if (fail_dup_at == n_dups) { err_set++; return -1; } d = 100 + NFD + n_dups; dup_of[d - 100] = fd; open_[d - 100] = 1; n_dups++; return d; }
dbus_bool_t _dbus_close (int fd, DBusError *e)
{ if (fd < 100 + NFD || fd >= 100 + 3 * NFD) { orig_close = 1; return 1; } if (!open_[fd - 100]) double_close = 1; open_[fd - 100] = 0; return 1; }
int _dbus_current_generation = 1;

static dbus_bool_t call (DBusMessageIter *it, DBusError *e, int first, ...)
{ va_list ap; dbus_bool_t r; va_start (ap, first); r = _dbus_message_iter_get_args_valist (it, e, first, ap); va_end (ap); return r; }

void harness (void)
{
  static DBusMessage m; static int arr[NFD]; static DBusMessageRealIter rit; DBusMessageRealIter *real = &rit; DBusError err;   /* the object has its real type: the public DBusMessageIter is only ever a cast of it (type punning costs byte-level reasoning) */
  int o0 = -7, o1 = -7, o2 = -7, o3 = -7; dbus_uint32_t u0 = 0, u1 = 0, u2 = 0, u3 = 0; int out[4]; dbus_uint32_t outu[4];   /* separate scalar outputs: one object per output pointer */
  int i, k, nfds = vf_range (0, NFD), expect_ok = 1, fail_arg = NSPEC, dups_before_fail = 0, n_h = 0; dbus_bool_t ok;
  for (i = 0; i < NFD; i++) { arr[i] = 100 + i; open_[i] = i < nfds; }
  for (i = 0; i < NARG; i++) val[i] = vf_u32 ();
  fail_dup_at = vf_range (-1, 3);
  m.refcount.value = 1; m.generation = 1; m.locked = 1; m.unix_fds = arr; m.n_unix_fds = nfds; m.n_unix_fds_allocated = NFD;
  real->message = &m; real->changed_stamp = m.changed_stamp; real->iter_type = DBUS_MESSAGE_ITER_TYPE_READER; real->sig_refcount = 0; real->u.reader.byte_order = DBUS_COMPILER_BYTE_ORDER;
  rpos = 0; dbus_error_init (&err);
#ifdef GETBASIC
  /* the other way to take a descriptor out: dbus_message_iter_get_basic on the current argument (no error channel: -1 stands for every failure) */
  {
    int got = -7; dbus_uint32_t gotu = 0;
    if (msg_t[0] == 'h')
      {
        dbus_message_iter_get_basic ((DBusMessageIter *) &rit, &got);
        if (val[0] >= (dbus_uint32_t) nfds || fail_dup_at == 0) VF_ASSERT (got == -1 && n_dups == 0, "an index beyond the attached descriptors, or a failed dup, reads as -1 and duplicates nothing");
        else { VF_ASSERT (got >= 100 + NFD && open_[got - 100] && dup_of[got - 100] == 100 + (int) val[0] && n_dups == 1, "the descriptor read is a fresh open duplicate of the one the body refers to"); VF_WITNESS_OPT ("descriptor read"); }
      }
    else { dbus_message_iter_get_basic ((DBusMessageIter *) &rit, &gotu); VF_ASSERT (gotu == val[0] && n_dups == 0, "other values are read as they are"); }
    VF_ASSERT (!orig_close && !double_close && m.n_unix_fds == (unsigned) nfds, "reading never closes or drops the message's own descriptors");
    for (i = 0; i < NFD; i++) VF_ASSERT (m.unix_fds[i] == 100 + i && open_[i] == (i < nfds), "the message's descriptors are untouched");
    goto vf_end;
  }
#endif
  /* the reference walk */
  for (i = 0; i < NSPEC && expect_ok; i++)
    {
      if (i >= NARG || spec_t[i] != msg_t[i]) { expect_ok = 0; fail_arg = i; }
      else if (spec_t[i] == 'h')
        { if (val[i] >= (dbus_uint32_t) nfds || fail_dup_at == n_h) { expect_ok = 0; fail_arg = i; } else n_h++; }
    }
  dups_before_fail = n_h;

  #define PO(K) (spec_t[K] == 'h' ? (void *) &o##K : (void *) &u##K)
  ok = call ((DBusMessageIter *) &rit, &err, spec_t[0], PO (0), (int) spec_t[1], PO (1), (int) spec_t[2], PO (2), (int) spec_t[3], PO (3), 0);
  out[0] = o0; out[1] = o1; out[2] = o2; out[3] = o3; outu[0] = u0; outu[1] = u1; outu[2] = u2; outu[3] = u3;

  VF_ASSERT ((ok != 0) == (expect_ok != 0), "the call succeeds exactly when every asked type matches, every descriptor index is attached and every dup worked");
  VF_ASSERT (!orig_close, "reading a message never closes the message's own descriptors");
  VF_ASSERT (!double_close, "no descriptor is closed twice");
  VF_ASSERT (m.n_unix_fds == (unsigned) nfds, "the message keeps its descriptors");
  for (i = 0; i < NFD; i++) VF_ASSERT (m.unix_fds[i] == 100 + i && open_[i] == (i < nfds), "the message's descriptors are untouched");
  if (ok)
    {
      VF_ASSERT (!err_set, "no error on success");
      for (i = 0, k = 0; i < NSPEC; i++)
        if (spec_t[i] == 'h')
          { VF_ASSERT (out[i] >= 100 + NFD && open_[out[i] - 100] && dup_of[out[i] - 100] == 100 + (int) val[i], "each descriptor handed out is a fresh open duplicate of the one the body refers to, in argument order"); k++; }
        else VF_ASSERT (outu[i] == val[i], "other values are read as they are");
      VF_ASSERT (n_dups == k, "exactly one duplicate per descriptor argument");
      VF_WITNESS_OPT ("arguments read");
    }
  else
    {
      VF_ASSERT (err_set, "a failure sets the error");
      VF_ASSERT (n_dups == dups_before_fail, "nothing is duplicated after the failing argument");
      for (i = 0; i < 2 * NFD; i++) VF_ASSERT (open_[NFD + i] == 0, "a failed call closes every descriptor it had duplicated: the caller, told the call failed, is left holding none");
      for (i = 0; i < NSPEC; i++) if (spec_t[i] == 'h' && i < fail_arg) VF_ASSERT (out[i] == -1, "outputs of descriptors closed again are reset to -1");
      VF_WITNESS_OPT ("call failed");
      if (dups_before_fail > 0) VF_WITNESS_OPT ("call failed after a descriptor had been duplicated");
    }
vf_end:
  VF_WITNESS ("end of harness reached");
}
