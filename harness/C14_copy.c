/* C14 (library side, copying a message) / C15 — the real dbus_message_copy and close_unix_fds
 * (dbus/dbus-message.c) with every fallible step a solver variable: the message block, the
 * header copy, the body string, the body copy, the descriptor array, and dup() of the j-th
 * descriptor (j symbolic).  Descriptors are identities; the kernel's table is the ghost open[]:
 *  - failure (NULL): every descriptor duplicated so far is closed exactly once, none of the
 *    original's descriptors is closed, every block and string the copy had acquired is released
 *    (allocation and string-init balance back at the snapshot), the original is untouched;
 *  - success: the copy holds exactly one duplicate per descriptor of the original, in order
 *    (copy.unix_fds[i] duplicates original.unix_fds[i]), same body length, unlocked, refcount 1;
 *  - with no fault injected the copy succeeds. */
#include <config.h>
#undef DBUS_ENABLE_VERBOSE_MODE
#include <dbus/dbus-internals.h>
#include <dbus/dbus-memory.h>
#include <stdlib.h>
#include <string.h>
#include "vf.h"
#include "/repo/dbus/dbus-message.c"
#ifndef NFDS
#define NFDS 2
#endif
#define LEN(s) (((DBusString *) (s))->dummy2)
#define NFD 8
static int f_msg, f_hdr, f_body_init, f_body_copy, f_arr, f_dup_at;
static int live_blocks, live_strings, live_headers;
int _dbus_string_get_length (const DBusString *s) { return LEN (s); }
dbus_bool_t _dbus_string_init_preallocated (DBusString *s, int n) { if (f_body_init) return 0; LEN (s) = 0; live_strings++; return 1; }
void _dbus_string_free (DBusString *s) { live_strings--; }
dbus_bool_t _dbus_string_copy (const DBusString *src, int start, DBusString *dst, int at)
{ VF_ASSERT (start == 0 && at == 0, "the whole body is copied to the front of the empty new body"); if (f_body_copy) return 0; LEN (dst) += LEN (src) - start; return 1; }
dbus_bool_t _dbus_header_copy (const DBusHeader *h, DBusHeader *d) { if (f_hdr) return 0; LEN (&d->data) = LEN (&h->data); live_headers++; return 1; }
void _dbus_header_free (DBusHeader *h) { live_headers--; }
void *dbus_malloc0 (size_t n) { void *p; VF_ASSERT (n == sizeof (DBusMessage), "only the message block is zero-allocated"); if (f_msg) return 0; p = calloc (1, n); VF_ASSUME (p != 0); live_blocks++; return p; }
void *dbus_malloc (size_t n)
{ int *p; if (n == 0) return 0; VF_ASSERT (n == NFDS * sizeof (int), "the descriptor array has room for exactly the original's descriptors"); if (f_arr) return 0; p = malloc (NFD * sizeof (int)); VF_ASSUME (p != 0); live_blocks++; return p; }
void dbus_free (void *p) { if (p) { free (p); live_blocks--; } }
dbus_int32_t _dbus_atomic_inc (DBusAtomic *a) { return a->value++; }
static int open_[2 * NFD], n_dups, double_close, orig_close, dup_of[2 * NFD];
int _dbus_dup (int fd, DBusError *e)
{ int d; VF_ASSERT (fd >= 100 && fd < 100 + NFDS && open_[fd - 100], "only the original's open descriptors are duplicated");
  if (f_dup_at == n_dups) return -1; d = 100 + NFD + n_dups; dup_of[d - 100] = fd; open_[d - 100] = 1; n_dups++; return d; }
dbus_bool_t _dbus_close (int fd, DBusError *e)
{ if (fd < 100 + NFD || fd >= 100 + 2 * NFD) { orig_close = 1; return 1; } if (!open_[fd - 100]) double_close = 1; open_[fd - 100] = 0; return 1; }
void dbus_error_init (DBusError *e) { e->name = 0; e->message = 0; }
void dbus_error_free (DBusError *e) { e->name = 0; e->message = 0; }
int _dbus_current_generation = 1;

void harness (void)
{
  static DBusMessage m; static int arr[NFD]; DBusMessage *c; int i, nfail, body = vf_range (0, 4096), hdr = vf_range (16, 4096);
  f_msg = vf_bool (); f_hdr = vf_bool (); f_body_init = vf_bool (); f_body_copy = vf_bool (); f_arr = vf_bool (); f_dup_at = vf_range (-1, NFDS - 1);
  nfail = f_msg + f_hdr + f_body_init + f_body_copy + (f_arr && NFDS > 0) + (f_dup_at >= 0);
  for (i = 0; i < NFDS; i++) { arr[i] = 100 + i; open_[i] = 1; }
  m.refcount.value = 1; m.generation = 1; m.locked = vf_bool (); m.unix_fds = arr; m.n_unix_fds = NFDS; m.n_unix_fds_allocated = NFD;
  LEN (&m.body) = body; LEN (&m.header.data) = hdr;

  c = dbus_message_copy (&m);

  VF_ASSERT (!orig_close, "the original's descriptors are never closed by a copy");
  VF_ASSERT (!double_close, "no descriptor is closed twice");
  VF_ASSERT (m.n_unix_fds == NFDS && LEN (&m.body) == body && LEN (&m.header.data) == hdr && m.refcount.value == 1, "the original is untouched");
  for (i = 0; i < NFDS; i++) VF_ASSERT (m.unix_fds[i] == 100 + i && open_[i] == 1, "the original still holds its descriptors, open");
  if (c == 0)
    {
      VF_ASSERT (nfail > 0, "with memory and descriptors available the copy succeeds");
      VF_ASSERT (live_blocks == 0 && live_strings == 0 && live_headers == 0, "a failed copy releases every block, string and header it had acquired");
      for (i = 0; i < NFD; i++) VF_ASSERT (open_[NFD + i] == 0, "a failed copy closes every descriptor it had duplicated: none leaks");
      VF_WITNESS_OPT ("copy failed");
      if (NFDS > 1 && f_dup_at == NFDS - 1 && nfail == 1) VF_WITNESS_OPT ("the last dup alone failed");
    }
  else
    {
      VF_ASSERT (f_msg + f_hdr + f_body_init + f_body_copy == 0 && f_dup_at < 0 && !(f_arr && NFDS > 0), "a copy is only returned when every step succeeded");
      VF_ASSERT (c->refcount.value == 1 && !c->locked && c->generation == m.generation, "the copy is a fresh, unlocked message");
      VF_ASSERT (LEN (&c->body) == body && LEN (&c->header.data) == hdr, "header and body are copied whole");
      VF_ASSERT (c->n_unix_fds == NFDS && c->n_unix_fds_allocated >= c->n_unix_fds, "the copy holds as many descriptors as the original");
      for (i = 0; i < NFDS; i++)
        VF_ASSERT (c->unix_fds[i] >= 100 + NFD && open_[c->unix_fds[i] - 100] && dup_of[c->unix_fds[i] - 100] == 100 + i, "the i-th descriptor of the copy is an open duplicate of the i-th descriptor of the original");
      VF_ASSERT (n_dups == NFDS, "exactly one duplicate per descriptor");
      /* what dbus_message_unref does with the copy's descriptors */
      close_unix_fds (c->unix_fds, &c->n_unix_fds);
      VF_ASSERT (!double_close && !orig_close, "freeing the copy closes each of its descriptors once and none of the original's");
      for (i = 0; i < NFD; i++) VF_ASSERT (open_[NFD + i] == 0, "after the copy is freed none of its descriptors is left open");
      VF_WITNESS ("copy succeeded");
    }
  VF_WITNESS ("end of harness reached");
}
