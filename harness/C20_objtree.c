/* C20 — object-path handler selection, on the real dbus-object-tree.c driven
 * through its real API: a history of K symbolic operations
 * (register handler / register fallback / unregister, on a symbolic path out of a
 * fixed set of 6 paths) followed by one dispatch of a symbolic path out of 9.
 * A set-of-registrations reference decides: which registrations succeed
 * (occupied path => ObjectPathInUse, nothing changes), which handlers are
 * offered the call and in which order (exact path first, then fallbacks of
 * successively shorter ancestors, stopping at the first that handles it), the
 * found_object flag that selects UnknownMethod vs UnknownObject, and the child
 * listing. */
#include <config.h>
#undef DBUS_ENABLE_VERBOSE_MODE
#include <dbus/dbus-internals.h>
#include <dbus/dbus-memory.h>
#include <stdlib.h>
#include <string.h>
#include "vf.h"
#include "msg_model.h"
struct DBusConnection { int id; };
#include "/repo/dbus/dbus-object-tree.c"

#ifndef SCN
#define SCN 3
#endif
#ifndef QP
#define QP 2
#endif
/* ---- memory: typed, fixed-capacity child arrays (R3) ---- */
void *dbus_malloc0 (size_t bytes)
{
  void *p;
  if (bytes == sizeof (DBusObjectTree)) p = calloc (1, sizeof (DBusObjectTree));
  else { VF_ASSERT (bytes == sizeof (DBusObjectSubtree), "node size (names are one byte)"); p = calloc (1, sizeof (DBusObjectSubtree)); }
  VF_ASSUME (p != 0);
  return p;
}
void *dbus_malloc (size_t bytes) { void *p = malloc (64); VF_ASSERT (bytes <= 64, "small allocation"); VF_ASSUME (p != 0); return p; }
#define CHILD_CAP 4
void *dbus_realloc (void *mem, size_t bytes)
{
  VF_ASSERT (bytes <= CHILD_CAP * sizeof (void *), "child array capacity model");
  if (mem) return mem;                 /* non-moving: capacity is always CHILD_CAP */
  { void *p = calloc (CHILD_CAP, sizeof (void *)); VF_ASSUME (p != 0); return p; }
}
void dbus_free (void *p) { if (p) free (p); }
void dbus_free_string_array (char **a) { }
dbus_int32_t _dbus_atomic_inc (DBusAtomic *a) { return a->value++; }
dbus_int32_t _dbus_atomic_dec (DBusAtomic *a) { return a->value--; }
dbus_int32_t _dbus_atomic_get (DBusAtomic *a) { return a->value; }
void _dbus_connection_lock (DBusConnection *c) { }
void _dbus_connection_unlock (DBusConnection *c) { }
DBusConnection *_dbus_connection_ref_unlocked (DBusConnection *c) { return c; }
void dbus_connection_unref (DBusConnection *c) { }
static const char *vf_err_name;
void dbus_set_error (DBusError *e, const char *name, const char *fmt, ...) { vf_err_name = name; if (e) { e->name = name; e->message = "m"; } }
void dbus_set_error_const (DBusError *e, const char *name, const char *m) { vf_err_name = name; if (e) { e->name = name; e->message = m; } }
dbus_bool_t dbus_message_is_method_call (DBusMessage *m, const char *i, const char *me) { return 0; }   /* not an Introspect call: built-in replies aside */

/* ---- the path universe ---- */
static const char *p_root[] = { 0 }, *p_a[] = { "a", 0 }, *p_ab[] = { "a", "b", 0 }, *p_ac[] = { "a", "c", 0 }, *p_b[] = { "b", 0 },
                  *p_abc[] = { "a", "b", "c", 0 }, *p_abd[] = { "a", "b", "d", 0 }, *p_c[] = { "c", 0 }, *p_ba[] = { "b", "a", 0 };
#define NREG 6
#define NQ 9
static const char **paths[NQ] = { p_root, p_a, p_ab, p_ac, p_b, p_abc, p_abd, p_c, p_ba };
static const int parent[NQ] = { -1, 0, 1, 1, 0, 2, 2, 0, 4 };   /* parent path index (path 0 = "/") */
static const int depth[NQ] = { 0, 1, 2, 2, 1, 3, 3, 1, 2 };
/* reference: set of registrations */
static int r_reg[NQ], r_fb[NQ];
static int is_ancestor_or_self (int a, int q) { while (q >= 0) { if (q == a) return 1; q = parent[q]; } return 0; }

/* ---- handlers: log invocation order, answer symbolically ---- */
#define NLOG 6
static int call_log[NLOG], n_calls, handled_by[NQ], unreg_calls[NQ];
static DBusHandlerResult handler (DBusConnection *c, DBusMessage *m, void *ud)
{
  int id = (int) (long) ud - 1;
  VF_ASSERT (n_calls < NLOG, "call log capacity");
  call_log[n_calls++] = id;
  return handled_by[id] ? DBUS_HANDLER_RESULT_HANDLED : DBUS_HANDLER_RESULT_NOT_YET_HANDLED;
}
static void unreg (DBusConnection *c, void *ud) { unreg_calls[(int) (long) ud - 1]++; }
static const DBusObjectPathVTable vt = { unreg, handler, 0, 0, 0, 0 };
static int q_path;
dbus_bool_t dbus_message_get_path_decomposed (DBusMessage *m, char ***out) { *out = (char **) paths[q_path]; return 1; }

static void vf_do_register (DBusObjectTree *tree, int p, int fb)
{
  dbus_bool_t ok;
  /* error == NULL as in dbus_connection_register_object_path(): the ObjectPathInUse text is built with heap DBusStrings (formatting, R2) */
  ok = _dbus_object_tree_register (tree, fb, paths[p], &vt, (void *) (long) (p + 1), NULL);
  if (r_reg[p])
    VF_ASSERT (!ok, "registering an occupied path fails (and, below, changes nothing)");
  else
    { VF_ASSERT (ok, "registering a free path succeeds"); r_reg[p] = 1; r_fb[p] = fb; }
}
static void vf_do_unregister (DBusObjectTree *tree, int p)
{
  _dbus_object_tree_unregister_and_unlock (tree, paths[p]);
  VF_ASSERT (unreg_calls[p] == 1, "the unregister callback runs exactly once");
  unreg_calls[p] = 0; r_reg[p] = 0; r_fb[p] = 0;
}
void harness (void)
{
  DBusObjectTree *tree = _dbus_object_tree_new (0);
  static struct DBusMessage msg;
  int i, want[NLOG], nw = 0, found_strict, found_flag_model;
  dbus_bool_t found = 77; DBusHandlerResult res;
  VF_ASSUME (tree != 0);
  msg.type = 1;
  /* the history: a concrete script of operations per scenario (shape, R4); fallback flags symbolic */
#define REG(p) vf_do_register (tree, p, vf_bool ())
#define UNREG(p) vf_do_unregister (tree, p)
  switch (SCN)
    {
    case 0: break;                                                   /* nothing registered */
    case 1: REG (1); break;                                          /* /a */
    case 2: REG (2); break;                                          /* /a/b (intermediate /a unregistered) */
    case 3: REG (1); REG (2); break;                                 /* /a, /a/b */
    case 4: REG (2); REG (3); REG (4); break;                        /* /a/b, /a/c, /b */
    case 5: REG (0); REG (2); break;                                 /* /, /a/b */
    case 6: REG (1); REG (1); break;                                 /* occupied path */
    case 7: REG (1); REG (2); UNREG (2); break;                      /* leaf removed, parent stays */
    case 8: REG (1); REG (2); UNREG (1); break;                      /* parent unregistered, child keeps the node alive */
    case 9: REG (2); UNREG (2); REG (4); break;                      /* whole branch pruned */
    case 10: REG (4); REG (1); REG (3); REG (2); UNREG (3); break;   /* out-of-order insertion, sibling removal */
    case 11: REG (0); UNREG (0); REG (1); break;                     /* root registered then unregistered */
    }
  /* user data lookup agrees with the registration set */
  for (i = 0; i < NREG; i++)
    VF_ASSERT ((_dbus_object_tree_get_user_data_unlocked (tree, paths[i]) == (void *) (long) (i + 1)) == (r_reg[i] != 0), "get_object_path_data agrees with the registration set");

  /* the node set is exactly the registered paths and their ancestors: no ghost nodes stay behind, so the
   * child listing (which walks these nodes) reflects exactly the registered tree */
  for (i = 0; i < NQ; i++)
    {
      int j, should = (i == 0);
      for (j = 0; j < NREG; j++) if (r_reg[j] && is_ancestor_or_self (i, j)) should = 1;
      VF_ASSERT ((lookup_subtree (tree, paths[i]) != 0) == (should != 0), "a tree node exists exactly for registered paths and their ancestors");
    }
  /* dispatch */
  q_path = QP;    /* the dispatched path is part of the shape (R4): one job per (history, path) */
  for (i = 0; i < NQ; i++) handled_by[i] = vf_bool ();
  res = _dbus_object_tree_dispatch_and_unlock (tree, &msg, &found);
  /* reference order: exact path, then fallback ancestors, deepest first */
  { int a = q_path;
    while (a >= 0)
      {
        if (a < NREG && r_reg[a] && (a == q_path || r_fb[a])) { want[nw++] = a; if (handled_by[a]) break; }
        a = parent[a];
      } }
  VF_ASSERT (n_calls == nw, "exactly the handlers the statement prescribes are offered the call");
  for (i = 0; i < nw && i < NLOG; i++) VF_ASSERT (call_log[i] == want[i], "in the prescribed order: exact path first, then successively shorter fallback ancestors");
  VF_ASSERT ((res == DBUS_HANDLER_RESULT_HANDLED) == (nw > 0 && handled_by[want[nw - 1]]), "dispatch stops at the first handler that declares the call handled");
  /* UnknownMethod vs UnknownObject: found_object */
  found_strict = 0;
  for (i = 0; i < NREG; i++)
    if (r_reg[i] && (is_ancestor_or_self (q_path, i) || (r_fb[i] && is_ancestor_or_self (i, q_path)))) found_strict = 1;
  if (found_strict)
    VF_ASSERT (found == TRUE, "a registered path, an ancestor of one, or a path below a fallback registration is a known object (UnknownMethod)");
  else
    VF_FINDING (found == FALSE, "F6-found-object-from-handlerless-fallback-flag");
  if (nw >= 2) VF_WITNESS_OPT ("exact handler declines and a fallback ancestor is offered the call");
  if (nw == 0 && found_strict) VF_WITNESS_OPT ("known object without taker");
  VF_WITNESS ("end of harness reached");
}
