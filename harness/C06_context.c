/* C06.e — bus_policy_create_client_policy: the per-connection rule list is
 * default ++ (each of the connection's groups, in order) ++ user ++ console ++ mandatory
 * (dbus-daemon(1): "policies are applied in this order: all context=default, all
 * group=..., all user=..., all at_console, all context=mandatory, so that later ones
 * override earlier ones").  Each source list holds one tagged rule; uid/gid keys,
 * group membership, console status are symbolic. */
#include <config.h>
#include <dbus/dbus-internals.h>
#include <dbus/dbus-memory.h>
#include <dbus/dbus-hash.h>
#include <stdlib.h>
#include "vf.h"
#ifndef NG
#define NG 2
#endif
struct DBusConnection { int id; };
struct DBusHashTable { int n; unsigned long key; void *val; };
static int vf_oom_never;
void *_dbus_hash_table_lookup_uintptr (DBusHashTable *h, uintptr_t key) { return (h->n && h->key == key) ? h->val : 0; }
int _dbus_hash_table_get_n_entries (DBusHashTable *h) { return h->n; }
#include "/repo/bus/policy.c"

static unsigned long c_uid, c_groups[2]; static int c_ngroups, c_has_uid, c_console, c_console_err;
dbus_bool_t dbus_connection_get_is_authenticated (DBusConnection *c) { return 1; }
dbus_bool_t bus_connection_get_unix_groups (DBusConnection *c, unsigned long **groups, int *n, DBusError *e)
{
  unsigned long *g = dbus_new (unsigned long, 2);
  VF_ASSUME (g != 0);
  g[0] = c_groups[0]; g[1] = c_groups[1]; *groups = g; *n = c_ngroups; return 1;
}
dbus_bool_t dbus_connection_get_unix_user (DBusConnection *c, unsigned long *uid) { if (c_has_uid) *uid = c_uid; return c_has_uid; }
dbus_bool_t _dbus_unix_user_is_at_console (dbus_uid_t uid, DBusError *e)
{ if (c_console_err) { e->name = "x"; e->message = "m"; return 0; } return c_console; }
void dbus_set_error (DBusError *e, const char *name, const char *fmt, ...) { if (e) { e->name = name; e->message = "m"; } }
void dbus_set_error_const (DBusError *e, const char *name, const char *m) { if (e) { e->name = name; e->message = m; } }
dbus_bool_t dbus_error_is_set (const DBusError *e) { return e->name != 0; }
const char bus_no_memory_message[] = "oom";
BusService *bus_registry_lookup (BusRegistry *r, const DBusString *s) { return 0; }
dbus_bool_t bus_service_owner_in_queue (BusService *s, DBusConnection *c) { return 0; }
dbus_bool_t bus_connection_is_queued_owner_by_prefix (DBusConnection *c, const char *p) { return 0; }

static BusPolicyRule r_def, r_grp, r_usr, r_con_t, r_con_f, r_man;
static DBusList l_def, l_grp, l_usr, l_con_t, l_con_f, l_man;
static void mk (BusPolicyRule *r, DBusList *l)
{
  r->refcount = 1; r->allow = vf_bool ();
  /* concrete type (context order does not depend on it); not a catch-all, so that
   * bus_client_policy_optimize keeps everything before it */
  r->type = BUS_POLICY_RULE_SEND; r->d.send.message_type = 1;
  l->data = r; l->next = l; l->prev = l;
}
void harness (void)
{
  static BusPolicy pol; static struct DBusHashTable hu, hg; static struct DBusConnection conn;
  static DBusList *lgrp, *lusr;
  BusClientPolicy *cl; DBusError err; BusPolicyRule *want[6]; int nw = 0, i; DBusList *l;
  mk (&r_def, &l_def); mk (&r_grp, &l_grp); mk (&r_usr, &l_usr); mk (&r_con_t, &l_con_t); mk (&r_con_f, &l_con_f); mk (&r_man, &l_man);
  lgrp = &l_grp; lusr = &l_usr;
  pol.refcount = 1; pol.default_rules = &l_def; pol.mandatory_rules = &l_man;
  pol.at_console_true_rules = &l_con_t; pol.at_console_false_rules = &l_con_f;
  pol.rules_by_uid = &hu; pol.rules_by_gid = &hg;
  hu.n = vf_range (0, 1); hu.key = vf_u32 (); hu.val = &lusr;
  hg.n = vf_range (0, 1); hg.key = vf_u32 (); hg.val = &lgrp;
  c_uid = vf_u32 (); c_groups[0] = vf_u32 (); c_groups[1] = vf_u32 (); c_ngroups = NG;   /* shape: number of groups is concrete per job (R4) */
  VF_ASSUME (c_ngroups < 2 || c_groups[0] != c_groups[1]);
  c_has_uid = vf_bool (); c_console = vf_bool (); c_console_err = vf_bool ();
  err.name = 0; err.message = 0;
  cl = bus_policy_create_client_policy (&pol, &conn, &err);
  if (c_has_uid && c_console_err)
    {
      VF_ASSERT (cl == 0 && err.name != 0, "console lookup failure fails policy creation with an error");
      VF_WITNESS ("console lookup failed");
      return;
    }
  VF_ASSERT (cl != 0 && err.name == 0, "client policy is created when memory is available");
  want[nw++] = &r_def;
  for (i = 0; i < c_ngroups; i++) if (hg.n && c_groups[i] == hg.key) want[nw++] = &r_grp;
  if (c_has_uid)
    {
      if (hu.n && c_uid == hu.key) want[nw++] = &r_usr;
      want[nw++] = c_console ? &r_con_t : &r_con_f;
    }
  want[nw++] = &r_man;
  l = _dbus_list_get_first_link (&cl->rules);
  for (i = 0; i < nw; i++)
    {
      VF_ASSERT (l != 0 && l->data == want[i], "rule contexts are applied in the documented order: default, group, user, console, mandatory");
      if (l) l = _dbus_list_get_next_link (&cl->rules, l);
    }
  VF_ASSERT (l == 0, "no extra rules");
  if (nw == 4 + (NG > 0 ? 1 : 0)) VF_WITNESS ("every context contributes");
  if (nw == 2) VF_WITNESS ("only default and mandatory");
}
