/* C06.f / C09 (gate) — the real bus_context_check_security_policy (bus/bus.c) with
 * its callees stubbed: send policy, receive policy, SELinux / AppArmor hooks,
 * pending-reply book-keeping and queue-size accessors return solver-chosen
 * answers and are logged.  Checked on every path:
 *  - TRUE is returned only if every consulted policy allowed (send rules for an
 *    active sender, receive rules for an active proposed recipient), the queue
 *    limits hold, and — for a method call to its addressed recipient — the reply
 *    expectation was recorded;
 *  - a refusal by the send or receive rules is reported as AccessDenied, a full
 *    queue as LimitsExceeded;
 *  - the requested_reply flag handed to BOTH rule evaluators is exactly the answer
 *    of bus_connections_check_reply (asked with sender and addressed recipient,
 *    only for replies to the addressed recipient), TRUE for bus-originated replies,
 *    FALSE otherwise: only the addressee of an open call can send a "requested" reply;
 *  - an unregistered sender may only say Hello to the bus driver;
 *  - messages of unknown type are refused. */
#include <config.h>
#undef DBUS_ENABLE_VERBOSE_MODE
#include <dbus/dbus-internals.h>
#include <stdlib.h>
#include <string.h>
#include <stdarg.h>
#include "vf.h"
#include "msg_model.h"
struct DBusConnection { int id; int active; long out_size, out_fds; };
#include "/repo/bus/bus.c"

static struct DBusConnection c_sender = { 1, 1 }, c_addr = { 2, 1 }, c_other = { 3, 1 };
static int send_allows, recv_allows, selinux_ok, apparmor_ok, check_reply_answer, check_reply_oom, expect_ok;
static int n_send_checks, n_recv_checks, n_check_reply, n_expect, rr_to_send = -1, rr_to_recv = -1, check_reply_args_ok = 1, expect_args_ok = 1;
static int tok_policy, tok_conns;
static const char *vf_err_name;
void dbus_set_error (DBusError *e, const char *name, const char *fmt, ...) { vf_err_name = name; if (e) { e->name = name; e->message = "m"; } }
void dbus_set_error_const (DBusError *e, const char *name, const char *m) { vf_err_name = name; if (e) { e->name = name; e->message = m; } }
void dbus_error_init (DBusError *e) { e->name = 0; e->message = 0; }
dbus_bool_t dbus_error_is_set (const DBusError *e) { return e->name != 0; }
void dbus_move_error (DBusError *s, DBusError *d) { if (d) *d = *s; s->name = 0; s->message = 0; }
const char *dbus_message_type_to_string (int t) { return "t"; }
dbus_bool_t bus_connection_is_active (DBusConnection *c) { return c->active; }
BusClientPolicy *bus_connection_get_policy (DBusConnection *c) { return (BusClientPolicy *) &tok_policy; }
BusConnections *bus_connection_get_connections (DBusConnection *c) { return (BusConnections *) &tok_conns; }
const char *bus_connection_get_name (DBusConnection *c) { return ":1.x"; }
const char *bus_connection_get_loginfo (DBusConnection *c) { return "l"; }
dbus_bool_t bus_connections_check_reply (BusConnections *cs, BusTransaction *t, DBusConnection *sending, DBusConnection *receiving, DBusMessage *m, DBusError *e)
{
  n_check_reply++;
  if (!(sending == &c_sender && receiving == &c_addr)) check_reply_args_ok = 0;
  if (check_reply_oom) { e->name = DBUS_ERROR_NO_MEMORY; e->message = "m"; return 0; }
  return check_reply_answer;
}
dbus_bool_t bus_connections_expect_reply (BusConnections *cs, BusTransaction *t, DBusConnection *get, DBusConnection *send, DBusMessage *m, DBusError *e)
{ n_expect++; if (!(get == &c_sender && send == &c_addr)) expect_args_ok = 0; if (!expect_ok) { e->name = DBUS_ERROR_LIMITS_EXCEEDED; e->message = "m"; } return expect_ok; }
dbus_bool_t bus_selinux_allows_send (DBusConnection *s, DBusConnection *r, const char *t, const char *i, const char *m, const char *en, const char *d, BusActivationEntry *ae, DBusError *e) { return selinux_ok; }
dbus_bool_t bus_apparmor_allows_send (DBusConnection *s, DBusConnection *r, dbus_bool_t rr, const char *bt, int mt, const char *p, const char *i, const char *m, const char *en, const char *d, const char *src, BusActivationEntry *ae, DBusError *e)
{ if (!apparmor_ok) { e->name = DBUS_ERROR_ACCESS_DENIED; e->message = "m"; } return apparmor_ok; }
dbus_bool_t bus_client_policy_check_can_send (BusClientPolicy *p, BusRegistry *r, dbus_bool_t rr, DBusConnection *recv, DBusMessage *m, dbus_int32_t *tg, dbus_bool_t *log)
{ n_send_checks++; rr_to_send = rr; *tg = 1; *log = 0; return send_allows; }
dbus_bool_t bus_client_policy_check_can_receive (BusClientPolicy *p, BusRegistry *r, dbus_bool_t rr, DBusConnection *s, DBusConnection *a, DBusConnection *pr, DBusMessage *m, dbus_int32_t *tg)
{ n_recv_checks++; rr_to_recv = rr; *tg = 1; return recv_allows; }
long dbus_connection_get_outgoing_size (DBusConnection *c) { return c->out_size; }
long dbus_connection_get_outgoing_unix_fds (DBusConnection *c) { return c->out_fds; }

void harness (void)
{
  static BusContext ctx; static struct DBusMessage msg; static char ms[6][VF_STRMAX + 1]; DBusError err; dbus_bool_t ok;
  int have_sender = vf_bool (), have_addr = vf_bool (), prop_kind = vf_range (0, 2);   /* proposed recipient: 0 none (bus driver), 1 the addressed one, 2 an eavesdropper */
  struct DBusConnection *sender, *addr, *prop; int is_reply, eavesdrop, want_rr;
  static const char HELLO_IF[] = DBUS_INTERFACE_DBUS, DRV[] = DBUS_SERVICE_DBUS;
  vf_msg_symbolic (&msg, ms);
  msg.type = vf_range (1, 5);
  if (vf_bool ()) { msg.iface = HELLO_IF; msg.member = "Hello"; msg.type = 1; }
  c_sender.active = vf_bool (); c_addr.active = 1; c_other.active = 1;
  sender = have_sender ? &c_sender : 0; addr = have_addr ? &c_addr : 0;
  prop = prop_kind == 0 ? 0 : prop_kind == 1 ? addr : &c_other;
  VF_ASSUME (!(prop_kind == 1 && !have_addr));
  if (!have_addr && prop_kind == 0 && msg.type != DBUS_MESSAGE_TYPE_SIGNAL) msg.dest = DRV;     /* caller's precondition (asserted by the function): to the driver */
  VF_ASSUME (msg.dest != 0 || msg.type == DBUS_MESSAGE_TYPE_SIGNAL);
  VF_ASSUME (msg.type == DBUS_MESSAGE_TYPE_SIGNAL || addr != 0 || (msg.dest && strcmp (msg.dest, DBUS_SERVICE_DBUS) == 0));
  send_allows = vf_bool (); recv_allows = vf_bool (); selinux_ok = vf_bool (); apparmor_ok = vf_bool (); check_reply_answer = vf_bool (); check_reply_oom = vf_bool (); expect_ok = vf_bool ();
  c_addr.out_size = vf_long (); c_addr.out_fds = vf_long (); c_other.out_size = vf_long (); c_other.out_fds = vf_long ();
  ctx.limits.max_outgoing_bytes = vf_long (); ctx.limits.max_outgoing_unix_fds = vf_long ();
  err.name = 0; err.message = 0;
  ok = bus_context_check_security_policy (&ctx, (BusTransaction *) &tok_conns, sender, addr, prop, &msg, NULL, &err);
  is_reply = msg.reply_serial != 0; eavesdrop = (addr != prop);
  if (msg.type > 4) { VF_ASSERT (!ok && err.name && strcmp (err.name, DBUS_ERROR_ACCESS_DENIED) == 0, "messages of unknown type are refused"); VF_WITNESS_OPT ("unknown type"); return; }
  /* requested_reply plumbing */
  if (sender && c_sender.active && is_reply && prop != 0 && !eavesdrop) want_rr = check_reply_answer;
  else if (!sender && !eavesdrop && is_reply) want_rr = 1;
  else want_rr = 0;
  if (n_check_reply) VF_ASSERT (n_check_reply == 1 && check_reply_args_ok && sender && c_sender.active && is_reply && prop != 0 && !eavesdrop, "the pending-reply table is consulted once, for a reply from an active sender to its addressed recipient, with (sender, addressee)");
  if (n_send_checks) VF_ASSERT (rr_to_send == want_rr, "send rules see requested_reply = answer of the pending-reply table");
  if (n_recv_checks) VF_ASSERT (rr_to_recv == want_rr, "receive rules see requested_reply = answer of the pending-reply table");
  if (ok)
    {
      VF_ASSERT (err.name == 0, "no error on success");
      if (sender && !c_sender.active)
        { VF_ASSERT (prop == 0 && msg.member && strcmp (msg.member, "Hello") == 0 && selinux_ok && apparmor_ok, "an unregistered sender is only allowed to say Hello to the bus driver"); VF_WITNESS_OPT ("Hello allowed"); }
      else
        {
          if (sender) VF_ASSERT (n_send_checks == 1 && send_allows && selinux_ok && apparmor_ok, "allowed only if the sender's send rules (and MAC hooks) allow");
          if (prop) VF_ASSERT (n_recv_checks == 1 && recv_allows, "allowed only if the recipient's receive rules allow");
          if (prop) VF_ASSERT (prop->out_size <= ctx.limits.max_outgoing_bytes && prop->out_fds <= ctx.limits.max_outgoing_unix_fds, "allowed only if the recipient's outgoing queue is within limits");
          if (msg.type == DBUS_MESSAGE_TYPE_METHOD_CALL && sender && addr && !eavesdrop) VF_ASSERT (n_expect == 1 && expect_ok && expect_args_ok, "a method call to its addressed recipient is allowed only once its reply slot is recorded");
          else VF_ASSERT (n_expect == 0, "no reply slot for anything else (eavesdropped copies, signals, replies, driver messages)");
          VF_WITNESS ("allowed");
        }
    }
  else
    {
      VF_ASSERT (err.name != 0, "a refusal carries an error");
      if (n_send_checks && !send_allows) { VF_ASSERT (strcmp (err.name, DBUS_ERROR_ACCESS_DENIED) == 0 && n_recv_checks == 0 && n_expect == 0, "refused by the send rules => AccessDenied, nothing else consulted"); VF_WITNESS ("send rules deny"); }
      else if (n_recv_checks && !recv_allows) { VF_ASSERT (strcmp (err.name, DBUS_ERROR_ACCESS_DENIED) == 0 && n_expect == 0, "refused by the receive rules => AccessDenied, no reply slot opened"); VF_WITNESS ("receive rules deny"); }
    }
  VF_WITNESS ("end of harness reached");
}
