/* C16.a' — a (start,len) range that extends past the end of the string is
 * rejected by every predicate, never read. */
#include <config.h>
#include <dbus/dbus-internals.h>
#include <dbus/dbus-string.h>
#include <dbus/dbus-marshal-validate.h>
#include "vf.h"
#define TOTAL 6
void harness (void)
{
  unsigned char buf[TOTAL + 1];
  DBusString s;
  int slen = vf_range (0, TOTAL);
  int start = vf_range (0, TOTAL);
  int len = vf_int ();
  int which = vf_range (0, 6);
  dbus_bool_t r = FALSE;
  vf_bytes (buf, TOTAL);
  buf[slen] = 0;
  VF_ASSUME (start <= slen);
  VF_ASSUME (len >= 0);
  VF_ASSUME (len > slen - start);     /* out of range */
  _dbus_string_init_const_len (&s, (const char *) buf, slen);
  switch (which)
    {
    case 0: r = _dbus_validate_path (&s, start, len); break;
    case 1: r = _dbus_validate_interface (&s, start, len); break;
    case 2: r = _dbus_validate_member (&s, start, len); break;
    case 3: r = _dbus_validate_error_name (&s, start, len); break;
    case 4: r = _dbus_validate_bus_name (&s, start, len); break;
    case 5: r = _dbus_validate_bus_namespace (&s, start, len); break;
    case 6: r = _dbus_string_validate_utf8 (&s, start, len); break;
    }
  VF_ASSERT (!r, "range past the end of the string is rejected");
  VF_WITNESS ("reached");
}
