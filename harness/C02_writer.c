/* C02.c — values written through the real DBusTypeWriter (the machinery behind dbus_message_iter_append_* /
 * open_container / close_container) serialise to exactly the specification's encoding and read back unchanged.
 * Job shape: signature SIG (concrete), every array has ACNT elements, every string SLEN bytes, every variant
 * contains VSIG; byte order ORDER.  Every value (fixed-size bits, string bytes) is a solver variable.
 *   (1) the signature string produced by the writer equals SIG
 *   (2) the body equals, byte for byte, an independent encoder's output (alignment padding zero, array lengths
 *       counted from the first element after padding, variant signatures inline)
 *   (3) the real validator accepts it
 *   (4) the real DBusTypeReader walks it with the same types and returns the same values. */
#include <config.h>
#undef DBUS_ENABLE_VERBOSE_MODE
#include <dbus/dbus-internals.h>
#include "vf.h"
#ifndef ORDER
#define ORDER 'l'
#endif
#ifndef SIG
#define SIG "yqus"
#endif
#ifndef ACNT
#define ACNT 2
#endif
#ifndef SLEN
#define SLEN 3
#endif
#ifndef VSIG
#define VSIG "u"
#endif
#define VF_STR_CAP 160
#include "pool_strings.h"
#include <string.h>
#define NSTRS 6
static unsigned char spool[NSTRS][SLEN + 1];
static size_t vf_strlen (const char *v)
{ /* checked oracle (R19): strings handed to the writer all have SLEN bytes */
  const unsigned char *u = (const unsigned char *) v; size_t i;
  for (i = 0; i < SLEN; i++) VF_ASSERT (u[i] != 0, "strlen oracle: no NUL before the claimed length");
  VF_ASSERT (u[SLEN] == 0, "strlen oracle: NUL at the claimed length");
  return SLEN;
}
#define strlen vf_strlen
#include "/repo/dbus/dbus-marshal-basic.c"
#undef strlen
#include <dbus/dbus-marshal-recursive.h>
#include <dbus/dbus-marshal-validate.h>
#define NV 24
static dbus_uint64_t V[NV]; static int kW, kE, kR, sW, sE, sR;
static unsigned char exp[VF_STR_CAP]; static int epos;
static const char sig[] = SIG; static const char vsig[] = VSIG;
_DBUS_STRING_DEFINE_STATIC (vsig_str, VSIG);
_DBUS_STRING_DEFINE_STATIC (sig_const, SIG);
static int align_of (int t) { switch (t) { case 'y': case 'g': case 'v': return 1; case 'n': case 'q': return 2; case 'x': case 't': case 'd': case '(': case '{': return 8; default: return 4; } }
static int size_of (int t) { switch (t) { case 'y': return 1; case 'n': case 'q': return 2; case 'x': case 't': case 'd': return 8; default: return 4; } }
/* length of the single complete type at s[p] */
static int sct_len (const char *s, int p)
{ int q = p, depth;
  if (s[p] == 'a') return 1 + sct_len (s, p + 1);
  if (s[p] == '(' || s[p] == '{') { depth = 1; q = p + 1; while (depth) { if (s[q] == '(' || s[q] == '{') depth++; else if (s[q] == ')' || s[q] == '}') depth--; q++; } return q - p; }
  return 1; }
static dbus_uint64_t clip (int t, dbus_uint64_t v) { int n = size_of (t); if (t == 'b') return v & 1; return n == 8 ? v : v & ((1ULL << (8 * n)) - 1); }
/* ---- W: the real writer ---- */
static void W (DBusTypeWriter *w, const char *s, int p, const DBusString *s_str)
{
  int t = s[p]; DBusTypeWriter sub; int i, q;
  if (t == 's') { const char *sp = (const char *) spool[sW++]; VF_ASSERT (sW <= NSTRS, "string pool"); VF_ASSERT (_dbus_type_writer_write_basic (w, DBUS_TYPE_STRING, &sp), "write string"); }
  else if (t == 'a')
    { VF_ASSERT (_dbus_type_writer_recurse (w, DBUS_TYPE_ARRAY, s_str, p + 1, &sub), "open array");
      for (i = 0; i < ACNT; i++) W (&sub, s, p + 1, s_str);
      VF_ASSERT (_dbus_type_writer_unrecurse (w, &sub), "close array"); }
  else if (t == '(' || t == '{')
    { VF_ASSERT (_dbus_type_writer_recurse (w, t == '(' ? DBUS_TYPE_STRUCT : DBUS_TYPE_DICT_ENTRY, NULL, 0, &sub), "open struct");
      for (q = p + 1; s[q] != ')' && s[q] != '}'; q += sct_len (s, q)) W (&sub, s, q, s_str);
      VF_ASSERT (_dbus_type_writer_unrecurse (w, &sub), "close struct"); }
  else if (t == 'v')
    { VF_ASSERT (_dbus_type_writer_recurse (w, DBUS_TYPE_VARIANT, &vsig_str, 0, &sub), "open variant");
      for (q = 0; vsig[q]; q += sct_len (vsig, q)) W (&sub, vsig, q, &vsig_str);
      VF_ASSERT (_dbus_type_writer_unrecurse (w, &sub), "close variant"); }
  else
    { DBusBasicValue bv; dbus_uint64_t v = clip (t, V[kW++]); VF_ASSERT (kW <= NV, "value pool"); bv.u64 = 0;
      switch (size_of (t)) { case 1: bv.byt = (unsigned char) v; break; case 2: bv.u16 = (dbus_uint16_t) v; break; case 4: bv.u32 = (dbus_uint32_t) v; break; default: bv.u64 = v; }
      VF_ASSERT (_dbus_type_writer_write_basic (w, t, &bv), "write fixed value"); }
}
/* ---- E: independent encoder ---- */
static void e_pad (int a) { while (epos % a) exp[epos++] = 0; }
static void e_int (dbus_uint64_t v, int n) { int i; e_pad (n); for (i = 0; i < n; i++) exp[epos++] = (unsigned char) (ORDER == 'l' ? v >> (8 * i) : v >> (8 * (n - 1 - i))); }
static void E (const char *s, int p)
{
  int t = s[p], i, q, lenpos, start;
  if (t == 's') { const unsigned char *sp = spool[sE++]; e_int (SLEN, 4); for (i = 0; i < SLEN; i++) exp[epos++] = sp[i]; exp[epos++] = 0; }
  else if (t == 'a')
    { e_pad (4); lenpos = epos; epos += 4; e_pad (align_of (s[p + 1])); start = epos;
      for (i = 0; i < ACNT; i++) E (s, p + 1);
      { int save = epos; epos = lenpos; e_int ((dbus_uint64_t) (save - start), 4); epos = save; } }
  else if (t == '(' || t == '{') { e_pad (8); for (q = p + 1; s[q] != ')' && s[q] != '}'; q += sct_len (s, q)) E (s, q); }
  else if (t == 'v') { exp[epos++] = (unsigned char) (sizeof (VSIG) - 1); for (i = 0; vsig[i]; i++) exp[epos++] = (unsigned char) vsig[i]; exp[epos++] = 0; for (q = 0; vsig[q]; q += sct_len (vsig, q)) E (vsig, q); }
  else e_int (clip (t, V[kE++]), size_of (t));
}
/* ---- R: the real reader ---- */
static void R (DBusTypeReader *r, const char *s, int p)
{
  int t = s[p], i, q; DBusTypeReader sub;
  int want = t == '(' ? DBUS_TYPE_STRUCT : t == '{' ? DBUS_TYPE_DICT_ENTRY : t;
  VF_ASSERT (_dbus_type_reader_get_current_type (r) == want, "the reader sees the type that was written");
  if (t == 's') { const char *got = 0; const unsigned char *sp = spool[sR++]; _dbus_type_reader_read_basic (r, &got); VF_ASSERT (got != 0, "string value"); for (i = 0; i <= SLEN; i++) VF_ASSERT ((unsigned char) got[i] == sp[i], "string reads back byte for byte, NUL included"); }
  else if (t == 'a')
    { _dbus_type_reader_recurse (r, &sub);
      for (i = 0; i < ACNT; i++) { R (&sub, s, p + 1); _dbus_type_reader_next (&sub); }
      VF_ASSERT (_dbus_type_reader_get_current_type (&sub) == DBUS_TYPE_INVALID, "the array holds exactly the elements written"); }
  else if (t == '(' || t == '{')
    { _dbus_type_reader_recurse (r, &sub);
      for (q = p + 1; s[q] != ')' && s[q] != '}'; q += sct_len (s, q)) { R (&sub, s, q); _dbus_type_reader_next (&sub); }
      VF_ASSERT (_dbus_type_reader_get_current_type (&sub) == DBUS_TYPE_INVALID, "the struct holds exactly the members written"); }
  else if (t == 'v')
    { _dbus_type_reader_recurse (r, &sub);
      for (q = 0; vsig[q]; q += sct_len (vsig, q)) { R (&sub, vsig, q); _dbus_type_reader_next (&sub); } }
  else
    { DBusBasicValue bv; dbus_uint64_t v = clip (t, V[kR++]), got; bv.u64 = 0; _dbus_type_reader_read_basic (r, &bv);
      got = size_of (t) == 1 ? bv.byt : size_of (t) == 2 ? bv.u16 : size_of (t) == 4 ? bv.u32 : bv.u64;
      VF_ASSERT (got == v, "fixed-size value reads back unchanged"); }
}
void harness (void)
{
  DBusString sigstr, body; DBusTypeWriter w; DBusTypeReader r; DBusRealString *rb, *rs; int i, q, len;
  for (i = 0; i < NV; i++) V[i] = vf_u64 ();
  for (i = 0; i < NSTRS; i++) { for (q = 0; q < SLEN; q++) { spool[i][q] = vf_u8 (); VF_ASSUME (spool[i][q] != 0 && spool[i][q] < 0x80); } spool[i][SLEN] = 0; }   /* ASCII: valid UTF-8 for the validator */
  VF_ASSUME (_dbus_string_init (&sigstr) && _dbus_string_init (&body));
  _dbus_type_writer_init (&w, ORDER == 'l' ? DBUS_LITTLE_ENDIAN : DBUS_BIG_ENDIAN, &sigstr, 0, &body, 0);
  for (q = 0; sig[q]; q += sct_len (sig, q)) W (&w, sig, q, &sig_const);
  for (q = 0; sig[q]; q += sct_len (sig, q)) E (sig, q);
  rb = (DBusRealString *) &body; rs = (DBusRealString *) &sigstr; len = _dbus_string_get_length (&body);
  VF_ASSERT (_dbus_string_get_length (&sigstr) == (int) sizeof (SIG) - 1, "signature length");
  for (i = 0; i < (int) sizeof (SIG); i++) VF_ASSERT (rs->str[i] == (unsigned char) sig[i], "the writer records exactly the signature of what was written");
  VF_ASSERT (len == epos, "body length equals the specification's encoding length");
  for (i = 0; i < epos; i++) VF_ASSERT (rb->str[i] == exp[i], "body equals the specification's encoding byte for byte (values, zero padding, array lengths, inline variant signatures)");
#ifndef NOVALIDATE
  VF_ASSERT (_dbus_validate_body_with_reason (&sigstr, 0, ORDER == 'l' ? DBUS_LITTLE_ENDIAN : DBUS_BIG_ENDIAN, NULL, &body, 0, len) == DBUS_VALID, "the library's validator accepts what the writer produced");
#endif
#ifndef NOREAD
  _dbus_type_reader_init (&r, ORDER == 'l' ? DBUS_LITTLE_ENDIAN : DBUS_BIG_ENDIAN, &sigstr, 0, &body, 0);
  for (q = 0; sig[q]; q += sct_len (sig, q)) { R (&r, sig, q); _dbus_type_reader_next (&r); }
  VF_ASSERT (_dbus_type_reader_get_current_type (&r) == DBUS_TYPE_INVALID, "nothing follows the values written");
#endif
#if !defined (NOREAD)
  VF_ASSERT (kW == kE && kE == kR && sW == sE && sE == sR, "all three walks consumed the same values");
#endif
  VF_WITNESS ("end of harness reached");
}
