/* C14 (library side, building a message) / C15 — the real dbus_message_iter_append_basic,
 * expand_fd_array and close_unix_fds (dbus/dbus-message.c) when the value appended is a
 * UNIX_FD (or, TYPE != 'h', any other fixed-size basic value) and ANY of its fallible steps
 * fails: the signature string, the descriptor array growth, dup(), the body write, the
 * UNIX_FDS header field, the SIGNATURE header field.  Every one of those outcomes is a
 * solver variable, so every single fault and every combination of faults is covered.
 *
 * Descriptors are identities (100, 101, ...), the kernel's table is the ghost open[]:
 *  - whatever the outcome, a descriptor the message duplicated is either recorded in
 *    unix_fds[0 .. n_unix_fds) — and so closed when the message is freed — or closed already:
 *    nothing is leaked, nothing is closed twice, the caller's descriptor is never closed;
 *  - the descriptors the message held before are still held, in order;
 *  - success: exactly one more descriptor, the value written to the body is its index and
 *    the UNIX_FDS header field announces the new count;
 *  - the real close_unix_fds (what dbus_message_unref does with the array) then closes each
 *    held descriptor exactly once.
 * The bytes of a message whose append failed are documented as unusable ("the message is
 * hosed", @todo at dbus_message_iter_append_basic): finding F24, keyed. */
#include <config.h>
#undef DBUS_ENABLE_VERBOSE_MODE
#include <dbus/dbus-internals.h>
#include <dbus/dbus-memory.h>
#include <stdlib.h>
#include <string.h>
#include "vf.h"
#include "/repo/dbus/dbus-message.c"
#ifndef TYPE
#define TYPE DBUS_TYPE_UNIX_FD
#endif
#define LEN(s) (((DBusString *) (s))->dummy2)
#define NFD 12
/* ---- ghost strings ---- */
static int f_sig_init, f_sig_copy, f_realloc, f_dup, f_write, f_set_fds, f_set_sig;
int _dbus_string_get_length (const DBusString *s) { return LEN (s); }
dbus_bool_t _dbus_string_init_preallocated (DBusString *s, int n) { if (f_sig_init) return 0; LEN (s) = 0; return 1; }
void _dbus_string_free (DBusString *s) { }
dbus_bool_t _dbus_string_copy_len (const DBusString *src, int start, int len, DBusString *dst, int at) { if (f_sig_copy) return 0; LEN (dst) += len; return 1; }
unsigned char _dbus_string_get_byte (const DBusString *s, int at) { return (unsigned char) LEN (s); }
const char *_dbus_string_get_const_data (const DBusString *s) { return "h"; }
/* ---- header ---- */
static DBusString hdr_sig; static int have_sig, sig_len_now, body_len0, sig_len0;
static dbus_uint32_t announced; static int announced_set;
char _dbus_header_get_byte_order (const DBusHeader *h) { return DBUS_COMPILER_BYTE_ORDER; }
dbus_bool_t _dbus_header_get_field_raw (DBusHeader *h, int field, const DBusString **str, int *pos)
{ VF_ASSERT (field == DBUS_HEADER_FIELD_SIGNATURE, "only the signature field is looked up"); if (!have_sig) return 0; LEN (&hdr_sig) = sig_len_now; *str = &hdr_sig; *pos = 0; return 1; }
dbus_bool_t _dbus_header_set_field_basic (DBusHeader *h, int field, int type, const void *value)
{
  if (field == DBUS_HEADER_FIELD_UNIX_FDS) { if (f_set_fds) return 0; announced = *(const dbus_uint32_t *) value; announced_set = 1; return 1; }
  VF_ASSERT (field == DBUS_HEADER_FIELD_SIGNATURE, "only SIGNATURE and UNIX_FDS are set");
  if (f_set_sig) return 0;
  have_sig = 1; sig_len_now = sig_len_now + 0; return 1;
}
/* ---- the type writer: the body write either appends the value (4 bytes, aligned) and its type code, or fails leaving both alone (C12 / C02) ---- */
static dbus_uint32_t written; static int n_written, writer_sig_len;
void _dbus_type_writer_add_types (DBusTypeWriter *w, DBusString *type_str, int type_pos) { w->type_str = type_str; w->type_pos = type_pos; writer_sig_len = type_pos; }
void _dbus_type_writer_remove_types (DBusTypeWriter *w) { w->type_str = 0; w->type_pos = -1; }
dbus_bool_t _dbus_type_writer_write_basic (DBusTypeWriter *w, int type, const void *value)
{
  VF_ASSERT (type == TYPE, "the value is written with the type the caller named");
  if (f_write) return 0;
  written = *(const dbus_uint32_t *) value; n_written++;
  LEN (w->value_str) = ((LEN (w->value_str) + 3) & ~3) + 4; LEN (w->type_str) += 1; sig_len_now = LEN (w->type_str);
  return 1;
}
/* ---- memory ---- */
void *dbus_realloc (void *p, size_t n)
{
  int *q; int *o = p; int i;
  VF_ASSERT (n <= NFD * sizeof (int) && n >= 4 * sizeof (int), "the descriptor array grows to at least four and at most twice what is needed");
  if (f_realloc) return 0;
  q = malloc (NFD * sizeof (int)); VF_ASSUME (q != 0);
  if (o) { for (i = 0; i < NFD; i++) q[i] = o[i]; free (o); }
  return q;
}
void *dbus_malloc (size_t n) { void *p; if (f_sig_init && vf_bool ()) return 0; p = malloc (n); VF_ASSUME (p != 0); return p; }
void dbus_free (void *p) { if (p) free (p); }
/* ---- the kernel's descriptor table ---- */
static int open_[NFD], n_dups, double_close, foreign_close;
int _dbus_dup (int fd, DBusError *e) { int d; VF_ASSERT (fd == 50, "the caller's descriptor is the one duplicated"); if (f_dup) return -1; d = 100 + n_dups++; VF_ASSERT (d - 100 < NFD, "harness bound on descriptors"); VF_ASSUME (open_[d - 100] == 0); open_[d - 100] = 1; return d; }
dbus_bool_t _dbus_close (int fd, DBusError *e)
{ if (fd < 100 || fd >= 100 + NFD) { foreign_close = 1; return 1; } if (!open_[fd - 100]) double_close = 1; open_[fd - 100] = 0; return 1; }
void dbus_error_init (DBusError *e) { e->name = 0; e->message = 0; }
void dbus_error_free (DBusError *e) { e->name = 0; e->message = 0; }
int _dbus_current_generation = 1;

void harness (void)
{
  static DBusMessage m; DBusMessageIter it; DBusMessageRealIter *real = (DBusMessageRealIter *) &it;
  int n0 = vf_range (0, 3), alloc0, i, caller_fd = 50, nfail; dbus_uint32_t v32 = vf_u32 (); dbus_bool_t ok;
  int *arr = 0;
  f_sig_init = vf_bool (); f_sig_copy = vf_bool (); f_realloc = vf_bool (); f_dup = vf_bool (); f_write = vf_bool (); f_set_fds = vf_bool (); f_set_sig = vf_bool ();
  nfail = f_sig_init + f_sig_copy + f_realloc + f_dup + f_write + f_set_fds + f_set_sig;
  alloc0 = vf_range (0, 4); VF_ASSUME (alloc0 >= n0 && (alloc0 == 0 || alloc0 == 4));   /* the array is absent or was grown by expand_fd_array (>= 4) */
  if (alloc0) { arr = malloc (NFD * sizeof (int)); VF_ASSUME (arr != 0); }
  for (i = 0; i < n0; i++) { arr[i] = 100 + i; open_[i] = 1; }
  n_dups = n0;
  m.refcount.value = 1; m.generation = 1; m.unix_fds = arr; m.n_unix_fds = n0; m.n_unix_fds_allocated = alloc0;
  have_sig = vf_bool (); sig_len0 = sig_len_now = have_sig ? vf_range (1, 40) : 0; body_len0 = LEN (&m.body) = vf_range (0, 200);
  /* an append iterator as dbus_message_iter_init_append leaves it */
  real->message = &m; real->changed_stamp = m.changed_stamp; real->iter_type = DBUS_MESSAGE_ITER_TYPE_WRITER; real->sig_refcount = 0;
  real->u.writer.byte_order = DBUS_COMPILER_BYTE_ORDER; real->u.writer.type_str = 0; real->u.writer.value_str = &m.body; real->u.writer.value_pos = body_len0;

  ok = dbus_message_iter_append_basic (&it, TYPE, TYPE == DBUS_TYPE_UNIX_FD ? (const void *) &caller_fd : (const void *) &v32);

  VF_ASSERT (!foreign_close, "the caller's own descriptor is never closed by the library");
  VF_ASSERT (!double_close, "no descriptor is closed twice");
  VF_ASSERT (real->u.writer.type_str == 0 && real->sig_refcount == 0, "the iterator's temporary signature string is released on every path");
  VF_ASSERT (m.n_unix_fds <= m.n_unix_fds_allocated && (m.n_unix_fds_allocated == 0) == (m.unix_fds == 0), "the descriptor array stays consistent");
  VF_ASSERT (m.n_unix_fds >= (unsigned) n0 && m.n_unix_fds <= (unsigned) n0 + 1, "at most one descriptor is added");
  for (i = 0; i < 4; i++) if (i < n0) VF_ASSERT (m.unix_fds[i] == 100 + i, "descriptors the message already held are still held, in order");
  /* the accounting invariant: open <=> recorded */
  for (i = 0; i < 6; i++)
    {
      int recorded = (unsigned) i < m.n_unix_fds && m.unix_fds[i] == 100 + i;
      VF_ASSERT (open_[i] == recorded, "a duplicated descriptor is either recorded in the message (closed with it) or closed already: none leaks");
    }
  if (nfail == 0)
    {
      VF_ASSERT (ok, "with memory available the append succeeds");
      if (TYPE == DBUS_TYPE_UNIX_FD)
        {
          VF_ASSERT (m.n_unix_fds == (unsigned) n0 + 1 && written == (dbus_uint32_t) n0 && n_written == 1, "the body carries the index of the new descriptor");
          VF_ASSERT (announced_set && announced == (dbus_uint32_t) n0 + 1, "the UNIX_FDS header field announces the new count");
        }
      else
        VF_ASSERT (m.n_unix_fds == (unsigned) n0 && written == v32 && n_written == 1, "the value is written once; no descriptor is involved");
      VF_ASSERT (have_sig && sig_len_now == sig_len0 + 1 && LEN (&m.body) == ((body_len0 + 3) & ~3) + 4, "signature and body grow by exactly the value");
      VF_WITNESS ("append succeeded");
    }
  else if (!ok)
    {
      /* F24: the body write and the two header-field updates are three separate fallible steps with no roll-back between them */
      VF_FINDING (LEN (&m.body) == body_len0 && m.n_unix_fds == (unsigned) n0, "F24-append-basic-oom-leaves-message-half-built");
      VF_WITNESS_OPT ("append failed");
    }
#if TYPE == 104
  if (!ok && nfail == 1 && f_write) VF_WITNESS ("the body write alone failed");
#endif
  /* what dbus_message_unref does with the descriptors */
  close_unix_fds (m.unix_fds, &m.n_unix_fds);
  VF_ASSERT (!double_close && !foreign_close, "freeing the message closes each held descriptor once");
  for (i = 0; i < 6; i++) VF_ASSERT (open_[i] == 0, "after the message is freed no descriptor it duplicated is left open");
  VF_WITNESS ("end of harness reached");
}
