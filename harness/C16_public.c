/* C16.f — the public validation API (dbus/dbus-syntax.c: dbus_validate_path / _interface / _member / _error_name /
 * _bus_name / _utf8) gives, for every NUL-terminated C string of up to N bytes, the verdict of the specification's
 * grammar on the bytes before the first NUL — i.e. the same verdict as the internal length-taking predicates (C16.a/d)
 * give for that prefix — and sets an error exactly when it returns FALSE. */
#include <config.h>
#undef DBUS_ENABLE_VERBOSE_MODE
#include <dbus/dbus-internals.h>
#include <dbus/dbus-string.h>
#include <dbus/dbus-marshal-validate.h>
#include <dbus/dbus-syntax.h>
#include <string.h>
#include "vf.h"
#include "ref_names.h"
#ifndef N
#define N 5
#endif
#define W_path 1
#define W_interface 2
#define W_member 3
#define W_error_name 4
#define W_bus_name 5
#define W_utf8 7
#define PASTE(a, b) a##b
#define WSEL(x) PASTE (W_, x)
static int err_set;
void dbus_set_error (DBusError *e, const char *name, const char *fmt, ...) { err_set++; VF_ASSERT (name != 0 && strcmp (name, DBUS_ERROR_INVALID_ARGS) == 0, "the error is InvalidArgs"); }
void harness (void)
{
  static char buf[N + 1]; DBusError err; int i, len = N, spec; dbus_bool_t r; const unsigned char *p = (const unsigned char *) buf;
  for (i = 0; i < N; i++) buf[i] = (char) vf_u8 ();
  buf[N] = 0;
  for (i = N - 1; i >= 0; i--) if (buf[i] == 0) len = i;            /* C string: up to the first NUL */
  err.name = 0; err.message = 0;
#if WSEL (WHICH) == W_path
  r = dbus_validate_path (buf, &err); spec = ref_valid_path (p, len);
#elif WSEL (WHICH) == W_interface
  r = dbus_validate_interface (buf, &err); spec = ref_valid_interface (p, len);
#elif WSEL (WHICH) == W_member
  r = dbus_validate_member (buf, &err); spec = ref_valid_member (p, len);
#elif WSEL (WHICH) == W_error_name
  r = dbus_validate_error_name (buf, &err); spec = ref_valid_error_name (p, len);
#elif WSEL (WHICH) == W_bus_name
  r = dbus_validate_bus_name (buf, &err); spec = (len > 0 && p[0] == ':') ? ref_unique_name_lenient (p, len) : ref_valid_bus_name_spec (p, len);   /* unique names: the documented-lenient set (F1, C16.a) */
#else
  r = dbus_validate_utf8 (buf, &err); spec = ref_valid_utf8 (p, len);
#endif
  VF_ASSERT ((r != 0) == (spec != 0), "the public function's verdict equals the grammar's verdict on the C string");
  VF_ASSERT (err_set == (r ? 0 : 1), "an error is set exactly when the verdict is FALSE");
  if (r && len == N) VF_WITNESS_OPT ("accepts some string of maximal length");
  if (!r) VF_WITNESS ("rejects some string");
  VF_WITNESS ("end of harness reached");
}
