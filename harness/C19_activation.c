/* C19.b/c/d — the bus side of auto-start, on the real bus/activation.c with the
 * environment stubbed (hash tables = one-entry maps, spawn / shell / loop /
 * transaction / dispatch = ghost logs with symbolic outcomes).
 * OP 0: bus_activation_activate_service for a name whose activation is already
 *       pending with E held messages (E = 0..2) or not pending (PEND = 0):
 *       joining an existing activation starts nothing and appends the new message
 *       at the TAIL of the held messages (arrival order); a new activation spawns
 *       exactly one process and holds exactly this message.
 * OP 1: bus_activation_send_pending_auto_activation_messages: every held
 *       auto-start message whose sender is still connected is dispatched exactly
 *       once, in arrival order, to the new primary owner, and removed.
 * OP 2: try_send_activation_failure: every waiting (connected) sender gets exactly
 *       one error reply for its own message. */
#include <config.h>
#undef DBUS_ENABLE_VERBOSE_MODE
#include <dbus/dbus-internals.h>
#include <dbus/dbus-memory.h>
#include <stdlib.h>
#include <string.h>
#include <stdarg.h>
#include "vf.h"
#include "msg_model.h"
struct DBusConnection { int id; int connected; int refs; };
struct DBusHashTable { int which; };
struct DBusTimeout { int x; };
struct DBusBabysitter { int x; };
#include "/repo/bus/activation.c"
#ifndef OP
#define OP 0
#endif
#ifndef EXA
#define EXA "/x/demo s"
#define EXB "/x/demo serve"
#endif
#ifndef PEND
#define PEND 1
#endif
#ifndef E
#define E 2
#endif
static struct DBusHashTable h_entries = { 1 }, h_pending = { 2 }, h_env = { 3 };
static BusActivationEntry svc_entry; static BusPendingActivation *pend_obj; static int pend_in_hash, entries_lookups, pending_inserts;
void *_dbus_hash_table_lookup_string (DBusHashTable *h, const char *k)
{
  if (h == &h_entries) { entries_lookups++; return entries_lookups == 1 ? 0 : &svc_entry; }   /* first miss forces a cache refresh, second lookup finds the service file */
  if (h == &h_pending) return pend_in_hash ? pend_obj : 0;
  return 0;
}
dbus_bool_t _dbus_hash_table_insert_string (DBusHashTable *h, char *k, void *v) { if (h == &h_env) return 1; VF_ASSERT (h == &h_pending, "only pending activations (and environment variables) are inserted"); pending_inserts++; pend_obj = v; pend_in_hash = 1; return 1; }
static BusPendingActivation *pend2_obj; static int pend2_in_hash;
dbus_bool_t _dbus_hash_table_remove_string (DBusHashTable *h, const char *k)
{ if (h == &h_pending) { if (pend2_obj && pend2_in_hash && k == pend2_obj->service_name) pend2_in_hash = 0; else pend_in_hash = 0; return 1; } return 0; }
void _dbus_hash_iter_init (DBusHashTable *h, DBusHashIter *it) { it->dummy5 = -1; }
dbus_bool_t _dbus_hash_iter_next (DBusHashIter *it) { int i; for (i = it->dummy5 + 1; i < 2; i++) if (i == 0 ? pend_in_hash : pend2_in_hash) { it->dummy5 = i; return 1; } it->dummy5 = 2; return 0; }
void *_dbus_hash_iter_get_value (DBusHashIter *it) { return it->dummy5 == 0 ? (void *) pend_obj : (void *) pend2_obj; }
/* babysitter of the failing activation: the child exited with a non-zero status */
DBusBabysitter *_dbus_babysitter_ref (DBusBabysitter *s) { return s; }
dbus_bool_t _dbus_babysitter_get_child_exited (DBusBabysitter *s) { return 1; }
void _dbus_babysitter_set_child_exit_error (DBusBabysitter *s, DBusError *e) { e->name = DBUS_ERROR_SPAWN_CHILD_EXITED; e->message = "exited"; }
dbus_bool_t _dbus_babysitter_get_child_exit_status (DBusBabysitter *s, int *st) { *st = 1; return 1; }
char **_dbus_hash_table_to_array (DBusHashTable *h, char d) { static char *envp[1]; return envp; }
static int spawn_calls, spawn_ok, parse_ok, n_dispatch, dispatch_order[4], dispatch_addr_ok = 1, n_err_replies, err_reply_for[4], n_hooks, tok_ctx, tok_reg, tok_svc;
static struct DBusConnection owner = { 9, 1, 1 }, snd[3] = { { 0, 1, 1 }, { 1, 1, 1 }, { 2, 1, 1 } };
static struct DBusMessage held[3], newmsg; static struct DBusBabysitter sitter; static struct DBusTimeout tmo;
int bus_context_get_max_pending_activations (BusContext *c) { return 1000; }
dbus_bool_t bus_context_get_systemd_activation (BusContext *c) { return 0; }
const char *bus_context_get_servicehelper (BusContext *c) { return 0; }
dbus_bool_t bus_context_get_quiet_log (BusContext *c) { return 0; }
dbus_bool_t bus_context_get_using_syslog (BusContext *c) { return 0; }
int bus_context_get_activation_timeout (BusContext *c) { return 25000; }
DBusLoop *bus_context_get_loop (BusContext *c) { return (DBusLoop *) &tok_ctx; }
BusRegistry *bus_context_get_registry (BusContext *c) { return (BusRegistry *) &tok_reg; }
void bus_context_log (BusContext *c, DBusSystemLogSeverity s, const char *m, ...) { }
const char *bus_context_get_type (BusContext *c) { return "session"; }
const char *bus_connection_get_name (DBusConnection *c) { return ":1.x"; }
const char *bus_connection_get_loginfo (DBusConnection *c) { return "l"; }
dbus_bool_t bus_context_check_security_policy (BusContext *context, BusTransaction *t, DBusConnection *s, DBusConnection *a, DBusConnection *p, DBusMessage *m, BusActivationEntry *ae, DBusError *e) { return 1; }
BusService *bus_registry_lookup (BusRegistry *r, const DBusString *s) { return 0; }
DBusConnection *bus_service_get_primary_owners_connection (BusService *s) { return &owner; }
const char *bus_service_get_name (BusService *s) { return "a.b"; }
DBusConnection *dbus_connection_ref (DBusConnection *c) { c->refs++; return c; }
void dbus_connection_unref (DBusConnection *c) { c->refs--; }
dbus_bool_t dbus_connection_get_is_connected (DBusConnection *c) { return c->connected; }
DBusTimeout *_dbus_timeout_new (int interval, DBusTimeoutHandler h, void *d, DBusFreeFunction f) { return &tmo; }
void _dbus_timeout_unref (DBusTimeout *t) { }
dbus_bool_t _dbus_loop_add_timeout (DBusLoop *l, DBusTimeout *t) { return 1; }
void _dbus_loop_remove_timeout (DBusLoop *l, DBusTimeout *t) { }
dbus_bool_t bus_transaction_add_cancel_hook (BusTransaction *t, BusTransactionCancelFunction f, void *d, DBusFreeFunction fr) { n_hooks++; return 1; }
dbus_bool_t _dbus_shell_parse_argv (const char *cmd, int *argc, char ***argv, DBusError *e)
{ static char *av[2]; if (!parse_ok) { e->name = DBUS_ERROR_SPAWN_EXEC_FAILED; e->message = "m"; return 0; } av[0] = (char *) "/x"; *argc = 1; *argv = av; return 1; }
void dbus_free_string_array (char **a) { }
dbus_bool_t _dbus_spawn_async_with_babysitter (DBusBabysitter **s, const char *n, char *const *argv, char *const *env, DBusSpawnFlags fl, DBusSpawnChildSetupFunc cs, void *ud, DBusError *e)
{ spawn_calls++; if (!spawn_ok) { e->name = DBUS_ERROR_SPAWN_EXEC_FAILED; e->message = "m"; return 0; } *s = &sitter; return 1; }
void _dbus_babysitter_set_result_function (DBusBabysitter *s, DBusBabysitterFinishedFunc f, void *d) { }
dbus_bool_t _dbus_babysitter_set_watch_functions (DBusBabysitter *s, DBusAddWatchFunction a, DBusRemoveWatchFunction r, DBusWatchToggledFunction t, void *d, DBusFreeFunction f) { return 1; }
void _dbus_babysitter_unref (DBusBabysitter *s) { }
dbus_bool_t _dbus_string_init (DBusString *s) { return 1; }
void _dbus_string_free (DBusString *s) { }
dbus_bool_t _dbus_string_append (DBusString *s, const char *t) { return 1; }
const char *_dbus_string_get_const_data (const DBusString *s) { return "/x"; }
void dbus_set_error (DBusError *e, const char *name, const char *fmt, ...) { if (e) { e->name = name; e->message = "m"; } }
void dbus_set_error_const (DBusError *e, const char *name, const char *m) { if (e) { e->name = name; e->message = m; } }
void dbus_error_init (DBusError *e) { e->name = 0; e->message = 0; }
void dbus_error_free (DBusError *e) { e->name = 0; e->message = 0; }
dbus_bool_t dbus_error_is_set (const DBusError *e) { return e->name != 0; }
dbus_bool_t dbus_error_has_name (const DBusError *e, const char *n) { return e->name && strcmp (e->name, n) == 0; }
void dbus_move_error (DBusError *s, DBusError *d) { if (d) *d = *s; s->name = 0; s->message = 0; }
const char bus_no_memory_message[] = "oom";
char *_dbus_strdup (const char *s) { char *p = malloc (8); VF_ASSUME (p != 0); p[0] = s ? s[0] : 0; p[1] = 0; return p; }
void dbus_free (void *p) { if (p) free (p); }
void *dbus_malloc0 (size_t n) { void *p = calloc (1, n <= sizeof (BusPendingActivation) ? sizeof (BusPendingActivation) : 256); VF_ASSUME (p != 0); return p; }
static int dispatch_ok = 1;
dbus_bool_t bus_dispatch_matches (BusTransaction *t, DBusConnection *sender, DBusConnection *addressed, DBusMessage *m, DBusError *e)
{ VF_ASSERT (n_dispatch < 4, "log capacity"); dispatch_order[n_dispatch++] = m->id; if (addressed != &owner) dispatch_addr_ok = 0; if (!dispatch_ok) { e->name = DBUS_ERROR_ACCESS_DENIED; e->message = "m"; return 0; } return 1; }
dbus_bool_t bus_transaction_send_error_reply (BusTransaction *t, DBusConnection *c, const DBusError *e, DBusMessage *in_reply_to)
{ VF_ASSERT (n_err_replies < 4, "log capacity"); err_reply_for[n_err_replies++] = in_reply_to->id * 10 + c->id; return 1; }
BusTransaction *bus_transaction_new (BusContext *c) { return (BusTransaction *) &tok_ctx; }
void bus_transaction_execute_and_free (BusTransaction *t) { }
void bus_transaction_cancel_and_free (BusTransaction *t) { }
void _dbus_wait_for_memory (void) { }
void *dbus_malloc (size_t n) { void *p = malloc (64); VF_ASSERT (n <= 64, "small allocation"); VF_ASSUME (p != 0); return p; }
struct DBusPreallocatedHash { int x; };
DBusPreallocatedHash *_dbus_hash_table_preallocate_entry (DBusHashTable *h) { static struct DBusPreallocatedHash ph; return &ph; }
void _dbus_hash_table_free_preallocated_entry (DBusHashTable *h, DBusPreallocatedHash *p) { }
void _dbus_hash_table_insert_string_preallocated (DBusHashTable *h, DBusPreallocatedHash *p, char *k, void *v) { pend_obj = v; pend_in_hash = 1; }
DBusMessage *dbus_message_ref (DBusMessage *m) { m->refcount++; return m; }
void dbus_message_unref (DBusMessage *m) { m->refcount--; }

void harness (void)
{
  static BusActivation act; BusPendingActivation *pa = 0; BusPendingActivationEntry *pe[3]; DBusList *ln[3]; int i; DBusError err; dbus_bool_t ok;
  act.refcount = 1; act.entries = &h_entries; act.pending_activations = &h_pending; act.environment = &h_env; act.context = (BusContext *) &tok_ctx;
  svc_entry.refcount = 1; svc_entry.name = (char *) "a.b"; svc_entry.exec = (char *) "/x"; svc_entry.user = (char *) "u";
  spawn_ok = vf_bool (); parse_ok = vf_bool ();
  for (i = 0; i < 3; i++) { held[i].refcount = 1; held[i].id = i + 1; held[i].type = 1; snd[i].connected = vf_bool (); }
  newmsg.refcount = 1; newmsg.id = 7; newmsg.type = 1;
  if (PEND)
    {
      pa = calloc (1, sizeof (BusPendingActivation)); VF_ASSUME (pa != 0);
      pa->refcount = 1; pa->activation = &act; pa->service_name = _dbus_strdup ("a.b"); pa->n_entries = E; act.n_pending_activations = E;
      for (i = 0; i < E; i++)
        {
          pe[i] = calloc (1, sizeof (BusPendingActivationEntry)); ln[i] = calloc (1, sizeof (DBusList)); VF_ASSUME (pe[i] && ln[i]);
          pe[i]->activation_message = &held[i]; pe[i]->connection = &snd[i]; pe[i]->auto_activation = vf_bool (); ln[i]->data = pe[i];
        }
      for (i = 0; i < E; i++) { ln[i]->next = ln[(i + 1) % E]; ln[i]->prev = ln[(i + E - 1) % E]; }
      pa->entries = E ? ln[0] : 0;
      pend_obj = pa; pend_in_hash = 1;
    }
  err.name = 0; err.message = 0;
#if OP == 3
  /* C19: a start that fails errors exactly the senders waiting for THAT start (and for other names with the very same Exec line, which share its fate by
   * design) — a pending activation whose Exec line merely begins the same way is left alone.  Real pending_activation_finished_cb + pending_activation_failed. */
  {
    static int sitter_tok; BusPendingActivation *pb = calloc (1, sizeof (BusPendingActivation)); BusPendingActivationEntry *pe2 = calloc (1, sizeof (BusPendingActivationEntry)); DBusList *l2 = calloc (1, sizeof (DBusList));
    static char exa[] = EXA, exb[] = EXB, nb[] = "c.d"; int same = strcmp (EXA, EXB) == 0, errs_a = 0, errs_b = 0;
    VF_ASSUME (pb && pe2 && l2 && pa != 0);
    pa->exec = exa; pa->babysitter = (DBusBabysitter *) &sitter_tok;
    pb->refcount = 1; pb->activation = &act; pb->service_name = nb; pb->exec = exb; pb->n_entries = 1;
    pe2->activation_message = &held[2]; pe2->connection = &snd[2]; pe2->auto_activation = 1; snd[2].connected = 1; l2->data = pe2; l2->next = l2->prev = l2; pb->entries = l2;
    pend2_obj = pb; pend2_in_hash = 1;
    pending_activation_finished_cb ((DBusBabysitter *) &sitter_tok, pa);
    for (i = 0; i < 4; i++) if (i < n_err_replies) { if (err_reply_for[i] / 10 == held[2].id) errs_b++; else errs_a++; }
    VF_ASSERT (!pend_in_hash, "the failed activation is removed");
    VF_ASSERT (pend2_in_hash == !same && errs_b == (same ? 1 : 0), "another pending activation fails with it only if its Exec line is the same string; otherwise it stays pending and its sender gets no error");
    { int k = 0; for (i = 0; i < E; i++) if (snd[i].connected) k++; VF_ASSERT (errs_a == k, "every connected sender waiting for the failed start gets exactly one error"); }
  }
#elif OP == 0
  ok = bus_activation_activate_service (&act, &snd[2], (BusTransaction *) &tok_ctx, TRUE, &newmsg, "a.b", &err);
#if PEND
    {
      VF_ASSERT (spawn_calls == 0, "a second message for a name that is already being started starts nothing");
      if (ok)
        {
          DBusList *l = _dbus_list_get_first_link (&pa->entries);
          for (i = 0; i < E; i++) { VF_ASSERT (l != 0 && l->data == pe[i], "messages already held keep their order"); if (l) l = _dbus_list_get_next_link (&pa->entries, l); }
          VF_ASSERT (l != 0 && ((BusPendingActivationEntry *) l->data)->activation_message == &newmsg && _dbus_list_get_next_link (&pa->entries, l) == 0, "the new message is held after all earlier ones (arrival order)");
          VF_ASSERT (pa->n_entries == E + 1 && pending_inserts == 0, "one more held message, same activation");
          VF_WITNESS ("joined a pending activation");
        }
    }
#else
    {
      VF_ASSERT (spawn_calls <= 1, "at most one process is started per activation");
      if (ok)
        {
          VF_ASSERT (spawn_calls == 1 && spawn_ok && parse_ok, "a new activation starts exactly one process");
          VF_ASSERT (pend_in_hash && pend_obj != 0 && pend_obj->n_entries == 1 && ((BusPendingActivationEntry *) pend_obj->entries->data)->activation_message == &newmsg, "and holds exactly the message that caused it");
          VF_WITNESS ("started a new activation");
        }
    }
#endif
#elif OP == 1
  dispatch_ok = vf_bool ();
  ok = bus_activation_send_pending_auto_activation_messages (&act, (BusService *) &tok_svc, (BusTransaction *) &tok_ctx);
  VF_ASSERT (ok, "flush succeeds when memory is available");
  {
    int k = 0, j;
    for (i = 0; i < E; i++)
      if (pe[i]->auto_activation && snd[i].connected)
        { VF_ASSERT (k < n_dispatch && dispatch_order[k] == held[i].id, "held auto-start messages are dispatched in arrival order, each once"); k++; }
    VF_ASSERT (n_dispatch == k && dispatch_addr_ok, "nothing else is dispatched, and only to the new primary owner");
    for (j = 0; j < n_dispatch; j++) for (i = j + 1; i < n_dispatch; i++) VF_ASSERT (dispatch_order[i] != dispatch_order[j], "no message is dispatched twice");
    if (!dispatch_ok) VF_ASSERT (n_err_replies == n_dispatch, "a held message that policy refuses earns its own sender an error (RequestName itself does not fail)");
    if (k == E && E > 0) VF_WITNESS_OPT ("all held messages flushed");
  }
#else
  { DBusError how; how.name = DBUS_ERROR_SPAWN_CHILD_EXITED; how.message = "x";
    ok = try_send_activation_failure (pa, &how);
    VF_ASSERT (ok, "failure fan-out succeeds when memory is available");
    { int k = 0; for (i = 0; i < E; i++) if (snd[i].connected) { VF_ASSERT (k < n_err_replies && err_reply_for[k] == held[i].id * 10 + snd[i].id, "every waiting sender gets one error reply, for its own message"); k++; }
      VF_ASSERT (n_err_replies == k, "and nobody else gets one"); if (k == E && E > 0) VF_WITNESS_OPT ("all waiting senders notified"); } }
#endif
  VF_WITNESS ("end of harness reached");
}
