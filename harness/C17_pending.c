/* C17 (sequential core) — "every call awaiting a reply completes exactly once":
 * the real pending-call machinery of dbus-connection.c + dbus-pending-call.c
 * (attach, dbus_connection_dispatch's reply lookup, complete_pending_call_and_unlock,
 * detach, reply_handler_timeout, dbus_pending_call_cancel, serial counter) under a
 * ghost connection lock, with NCALLS calls attached through the real API and a
 * two-step symbolic schedule of events:
 *   REPLY(r)   a message with symbolic reply_serial r is queued and dispatched
 *   TIMEOUT(i) the timeout of call i fires (only while its timeout is installed), then dispatch
 *   CANCEL(i)  the application cancels call i
 *   CLOSE      (jobs built with -DWITH_CLOSE, second step only) the peer closes: the real
 *              connection_timeout_and_complete_all_pending_calls_unlocked runs, then everything queued is dispatched
 * Checked after each step: no call is notified more than once; a reply completes
 * exactly the attached call whose serial equals its reply_serial and no other; a
 * cancelled call is never notified; a timeout completes its call with the local
 * NoReply error; completion detaches the call (a later event for it is a no-op);
 * the connection lock is released and re-taken consistently (ghost lock).
 * Threads and real interleavings are outside (atomic steps under the lock). */
#include <config.h>
#undef DBUS_ENABLE_VERBOSE_MODE
#include <dbus/dbus-internals.h>
#include <dbus/dbus-memory.h>
#include <stdlib.h>
#include <string.h>
#include "vf.h"
#include <dbus/dbus-timeout.h>
struct DBusTimeout { int id; int enabled; DBusTimeoutHandler handler; void *data; };
struct DBusTimeoutList { int n_added; };
struct DBusHashTable { dbus_uint32_t key[2]; void *val[2]; int used[2]; };
struct DBusObjectTree { int x; };
struct DBusTransport { int connected; };
struct DBusCounter { int x; };
#include "/repo/dbus/dbus-connection.c"
#define slot_allocator vf_pc_slot_allocator      /* both files have a file-local slot_allocator */
#include "/repo/dbus/dbus-pending-call.c"
#undef slot_allocator
#ifndef NCALLS
#define NCALLS 2
#endif
#ifndef PRE
#define PRE 4
#endif
/* ---- messages: real DBusMessage objects (dbus-connection.c includes the private header) with a ghost side table ---- */
#define NMSG 8
static DBusMessage mobj[NMSG]; static struct { int type; dbus_uint32_t serial, reply_serial; int refs; } gm[NMSG]; static int n_mobj;
static int midx (const DBusMessage *m) { int i; for (i = 0; i < NMSG; i++) if (m == &mobj[i]) return i; VF_ASSERT (0, "unknown message object"); return 0; }
static DBusMessage *mnew (int type, dbus_uint32_t serial, dbus_uint32_t reply_serial) { VF_ASSERT (n_mobj < NMSG, "message pool"); gm[n_mobj].type = type; gm[n_mobj].serial = serial; gm[n_mobj].reply_serial = reply_serial; gm[n_mobj].refs = 1; return &mobj[n_mobj++]; }
int dbus_message_get_type (DBusMessage *m) { return gm[midx (m)].type; }
dbus_uint32_t dbus_message_get_serial (DBusMessage *m) { return gm[midx (m)].serial; }
dbus_uint32_t dbus_message_get_reply_serial (DBusMessage *m) { return gm[midx (m)].reply_serial; }
const char *dbus_message_get_interface (DBusMessage *m) { return 0; }
const char *dbus_message_get_member (DBusMessage *m) { return 0; }
const char *dbus_message_get_signature (DBusMessage *m) { return ""; }
const char *dbus_message_get_destination (DBusMessage *m) { return 0; }
dbus_bool_t dbus_message_is_signal (DBusMessage *m, const char *i, const char *me) { return 0; }
dbus_bool_t dbus_message_is_method_call (DBusMessage *m, const char *i, const char *me) { return 0; }
dbus_bool_t dbus_message_has_interface (DBusMessage *m, const char *i) { return 0; }
DBusMessage *dbus_message_ref (DBusMessage *m) { gm[midx (m)].refs++; return m; }
void dbus_message_unref (DBusMessage *m) { VF_ASSERT (gm[midx (m)].refs > 0, "message over-unref"); gm[midx (m)].refs--; }
DBusMessage *dbus_message_new_error (DBusMessage *reply_to, const char *name, const char *text) { return mnew (DBUS_MESSAGE_TYPE_ERROR, 0, gm[midx (reply_to)].serial); }
const char *dbus_message_type_to_string (int t) { return "t"; }
/* ---- ghost lock ---- */
static int lock_held, lock_errors;
void _dbus_rmutex_lock (DBusRMutex *m) { if (m == (DBusRMutex *) 1) { if (lock_held) lock_errors++; lock_held = 1; } }
void _dbus_rmutex_unlock (DBusRMutex *m) { if (m == (DBusRMutex *) 1) { if (!lock_held) lock_errors++; lock_held = 0; } }
void _dbus_cmutex_lock (DBusCMutex *m) { }
void _dbus_cmutex_unlock (DBusCMutex *m) { }
void _dbus_condvar_wait (DBusCondVar *c, DBusCMutex *m) { VF_ASSERT (0, "single-threaded model: nobody else holds the dispatch path"); }
void _dbus_condvar_wake_one (DBusCondVar *c) { }
dbus_int32_t _dbus_atomic_inc (DBusAtomic *a) { return a->value++; }
static DBusConnection conn;
dbus_int32_t _dbus_atomic_dec (DBusAtomic *a)
{ /* the application keeps its own reference to the connection throughout: finalisation (_dbus_connection_last_unref) is outside the model, and that it is not reached is an obligation */
  if (a == &conn.refcount) { VF_ASSERT (a->value > 1, "the connection is not finalised while the application holds its reference"); a->value--; return 2; /* constant "not the last reference": cuts the finaliser syntactically */ }
  return a->value--; }
dbus_int32_t _dbus_atomic_get (DBusAtomic *a) { return a->value; }
/* ---- int-keyed hash: 2-slot model calling the registered value-free function, as DBusHashTable does ---- */
static int hfind (DBusHashTable *h, dbus_uint32_t k) { int i; for (i = 0; i < 2; i++) if (h->used[i] && h->key[i] == k) return i; return -1; }
void *_dbus_hash_table_lookup_int (DBusHashTable *h, int key) { int i = hfind (h, (dbus_uint32_t) key); return i < 0 ? 0 : h->val[i]; }
dbus_bool_t _dbus_hash_table_insert_int (DBusHashTable *h, int key, void *v)
{ int i = hfind (h, (dbus_uint32_t) key); if (i < 0) { i = h->used[0] ? 1 : 0; VF_ASSERT (!h->used[i], "hash model capacity"); } h->key[i] = (dbus_uint32_t) key; h->val[i] = v; h->used[i] = 1; return 1; }
dbus_bool_t _dbus_hash_table_remove_int (DBusHashTable *h, int key)
{ int i = hfind (h, (dbus_uint32_t) key); void *v; if (i < 0) return 0; v = h->val[i]; h->used[i] = 0; free_pending_call_on_hash_removal (v); return 1; }
int _dbus_hash_table_get_n_entries (DBusHashTable *h) { return h->used[0] + h->used[1]; }
void _dbus_hash_iter_init (DBusHashTable *h, DBusHashIter *it) { it->dummy1 = h; it->dummy5 = -1; }
dbus_bool_t _dbus_hash_iter_next (DBusHashIter *it) { DBusHashTable *h = it->dummy1; int i; for (i = it->dummy5 + 1; i < 2; i++) if (h->used[i]) { it->dummy5 = i; return 1; } it->dummy5 = 2; return 0; }
void *_dbus_hash_iter_get_value (DBusHashIter *it) { DBusHashTable *h = it->dummy1; return h->val[it->dummy5]; }
void _dbus_hash_iter_remove_entry (DBusHashIter *it) { DBusHashTable *h = it->dummy1; void *v = h->val[it->dummy5]; h->used[it->dummy5] = 0; free_pending_call_on_hash_removal (v); }
/* ---- timeouts ---- */
static struct DBusTimeout tmo[NCALLS]; static int n_tmo;
DBusTimeout *_dbus_timeout_new (int interval, DBusTimeoutHandler h, void *d, DBusFreeFunction f) { VF_ASSERT (n_tmo < NCALLS, "timeout pool"); tmo[n_tmo].id = n_tmo; tmo[n_tmo].handler = h; tmo[n_tmo].data = d; return &tmo[n_tmo++]; }
void _dbus_timeout_unref (DBusTimeout *t) { }
dbus_bool_t _dbus_timeout_list_add_timeout (DBusTimeoutList *l, DBusTimeout *t) { t->enabled = 1; l->n_added++; return 1; }
void _dbus_timeout_list_remove_timeout (DBusTimeoutList *l, DBusTimeout *t) { VF_ASSERT (t->enabled, "a timeout is removed only while installed"); t->enabled = 0; l->n_added--; }
void _dbus_timeout_list_toggle_timeout (DBusTimeoutList *l, DBusTimeout *t, dbus_bool_t e) { }
/* ---- misc environment ---- */
static void *slot_data[NCALLS]; static DBusPendingCall *calls[NCALLS];
static int call_index (DBusPendingCall *p) { int i; for (i = 0; i < NCALLS; i++) if (calls[i] == p) return i; return -1; }
void _dbus_data_slot_list_init (DBusDataSlotList *l) { }
void _dbus_data_slot_list_free (DBusDataSlotList *l) { }
void _dbus_data_slot_list_clear (DBusDataSlotList *l) { }
dbus_bool_t _dbus_data_slot_list_set (DBusDataSlotAllocator *a, DBusDataSlotList *l, int slot, void *data, DBusFreeFunction f, DBusFreeFunction *of, void **od) { *of = 0; *od = 0; return 1; }
void *_dbus_data_slot_list_get (DBusDataSlotAllocator *a, DBusDataSlotList *l, int slot) { return 0; }
dbus_bool_t _dbus_data_slot_allocator_alloc (DBusDataSlotAllocator *a, dbus_int32_t *s) { *s = 1; return 1; }
void _dbus_data_slot_allocator_free (DBusDataSlotAllocator *a, dbus_int32_t *s) { }
dbus_bool_t _dbus_transport_queue_messages (DBusTransport *t) { return 1; }
DBusDispatchStatus _dbus_transport_get_dispatch_status (DBusTransport *t) { return DBUS_DISPATCH_COMPLETE; }
dbus_bool_t _dbus_transport_get_is_connected (DBusTransport *t) { return t->connected; }
dbus_bool_t _dbus_transport_peek_is_authenticated (DBusTransport *t) { return 1; }
dbus_bool_t _dbus_transport_try_to_authenticate (DBusTransport *t) { return 1; }
static DBusConnection conn;
DBusHandlerResult _dbus_object_tree_dispatch_and_unlock (DBusObjectTree *t, DBusMessage *m, dbus_bool_t *found) { *found = 0; _dbus_connection_unlock (&conn); return DBUS_HANDLER_RESULT_NOT_YET_HANDLED; }
void *dbus_malloc0 (size_t n) { void *p = calloc (1, n <= sizeof (DBusPendingCall) ? sizeof (DBusPendingCall) : 512); VF_ASSUME (p != 0); return p; }
void *dbus_malloc (size_t n) { void *p = malloc (64); VF_ASSERT (n <= 64, "small alloc"); VF_ASSUME (p != 0); return p; }
void dbus_free (void *p) { if (p) free (p); }
void _dbus_bus_notify_shared_connection_disconnected_unlocked (DBusConnection *c) { }
void _dbus_counter_adjust_size (DBusCounter *c, long d) { }
void _dbus_counter_adjust_unix_fd (DBusCounter *c, long d) { }
void _dbus_message_remove_counter (DBusMessage *m, DBusCounter *c) { }
dbus_bool_t dbus_message_is_signal_local_disconnected_dummy;
/* ---- notifications ---- */
static int completions[NCALLS], completed_with_serial[NCALLS], completed_is_error[NCALLS];
static void notify (DBusPendingCall *p, void *ud)
{
  int i = call_index (p); DBusMessage *r;
  VF_ASSERT (i >= 0, "notification for a known call");
  VF_ASSERT (!lock_held, "application callbacks run without the connection lock");
  completions[i]++;
  r = p->reply;
  completed_with_serial[i] = r ? (int) gm[midx (r)].reply_serial : -1;
  completed_is_error[i] = r ? (gm[midx (r)].type == DBUS_MESSAGE_TYPE_ERROR) : 0;
}
int _dbus_current_generation = 1; static struct DBusHashTable ht; static struct DBusTimeoutList tl; static struct DBusTransport tr = { 1 }; static struct DBusObjectTree ot;
static DBusMessage *reqs[NCALLS]; static dbus_uint32_t serials[NCALLS]; static int cancelled[NCALLS];

static void lock (void) { _dbus_rmutex_lock ((DBusRMutex *) 1); conn.have_connection_lock = 1; }
static void event (int step)
{
#ifdef WITH_CLOSE
  /* close jobs: the first event is CONCRETE (job shape PRE: 0 reply for call 0 / 1 timeout of call 0 / 2 cancel call 0 / 4 nothing) so that
   * reference counts and table contents stay constants through the close (symbolic ones send symex into the connection finaliser) */
  int kind = step == 1 ? 3 : PRE,
#else
  int kind = vf_range (0, 2),
#endif
#ifdef WITH_CLOSE
      i = 0,
#else
      i = vf_range (0, NCALLS - 1),
#endif
      k, before[NCALLS], attached[NCALLS]; dbus_uint32_t r = 0;
  for (k = 0; k < NCALLS; k++) { before[k] = completions[k]; attached[k] = hfind (&ht, serials[k]) >= 0; }
  if (kind == 0)
    {
      DBusMessage *m = mnew (vf_bool () ? DBUS_MESSAGE_TYPE_METHOD_RETURN : DBUS_MESSAGE_TYPE_ERROR, 77 + step,
#ifdef WITH_CLOSE
                              r = serials[0]);
#else
                              r = vf_u32 ());
#endif
      DBusList *l = calloc (1, sizeof (DBusList));
      VF_ASSUME (l != 0);
      l->data = m; l->next = l->prev = l;
      lock ();
      _dbus_connection_queue_received_message_link (&conn, l);
      _dbus_connection_unlock (&conn);
      dbus_connection_dispatch (&conn);
    }
  else if (kind == 1)
    {
      VF_ASSUME (tmo[i].enabled);                   /* the main loop only fires installed timeouts */
      reply_handler_timeout (calls[i]);
      dbus_connection_dispatch (&conn);
    }
#ifdef WITH_CLOSE
  else if (kind == 3)
    {
      /* the peer closes: the transport reports "not connected" and the Disconnected signal prepared at connection creation is still unsent;
       * the real dispatch-status code then runs notify_disconnected_and_dispatch_complete_unlocked -> connection_timeout_and_complete_all_pending_calls_unlocked */
      DBusList *dl = calloc (1, sizeof (DBusList)); VF_ASSUME (dl != 0);
      dl->data = mnew (DBUS_MESSAGE_TYPE_SIGNAL, 0, 0); dl->next = dl->prev = dl;
      conn.disconnect_message_link = dl;
      tr.connected = 0;
      for (k = 0; k < NCALLS + 2; k++) dbus_connection_dispatch (&conn);
      VF_ASSERT (conn.disconnect_message_link == 0, "the Disconnected signal was queued (after the calls' errors)");
      VF_ASSERT (conn.n_incoming == 0, "everything queued by the close was dispatched");
    }
#endif
  else if (kind == 4) { }
  else
    {
      dbus_pending_call_cancel (calls[i]);
      cancelled[i] = 1;
    }
  VF_ASSERT (!lock_held && lock_errors == 0, "the connection lock is balanced around every step");
  for (k = 0; k < NCALLS; k++)
    {
      if (kind == 0)
        VF_ASSERT (completions[k] == before[k] + ((attached[k] && r == serials[k]) ? 1 : 0), "a reply completes exactly the attached call whose serial equals its reply_serial, and no other call");
      else if (kind == 1)
        VF_ASSERT (completions[k] == before[k] + ((k == i) ? 1 : 0) && (k != i || completed_is_error[k]), "a timeout completes exactly its own call, with the local NoReply error");
      else if (kind == 3)
        {
          VF_ASSERT (completions[k] <= before[k] + 1 && (attached[k] || completions[k] == before[k]), "a close completes no call twice and none that was already completed or cancelled");
          VF_ASSERT (hfind (&ht, serials[k]) < 0 && !tmo[k].enabled, "after the close no call is outstanding and no timeout is installed");
          /* the statement: "... or with a locally generated error if ... the connection closes first" */
          if (attached[k]) VF_FINDING (completions[k] == before[k] + 1 && completed_is_error[k], "F12-close-drops-notify-observed-calls");
        }
      else if (kind == 4) VF_ASSERT (completions[k] == before[k], "nothing happened");
      else
        VF_ASSERT (completions[k] == before[k] && (k != i || hfind (&ht, serials[k]) < 0), "cancelling notifies nobody and detaches the call");
    }
  if (kind == 0 && NCALLS > 0 && attached[0] && r == serials[0]) VF_WITNESS_OPT ("a reply completed call 0");
  if (kind == 1) VF_WITNESS_OPT ("a timeout fired");
  if (kind == 2 && step == 0) VF_WITNESS_OPT ("a call was cancelled first");
  if (kind == 3 && attached[0]) VF_WITNESS_OPT ("the peer closed with call 0 outstanding");
}

void harness (void)
{
  int i, j;
  conn.refcount.value = 1; conn.generation = 1; conn.mutex = (DBusRMutex *) 1; conn.slot_mutex = (DBusRMutex *) 2; conn.pending_replies = &ht; conn.timeouts = &tl; conn.transport = &tr; conn.objects = &ot;
#ifdef WITH_CLOSE
  conn.client_serial = 41;                      /* close jobs: concrete serials keep the table model's slot choice constant (serial arithmetic is the two_events jobs' subject) */
#else
  conn.client_serial = vf_u32 (); VF_ASSUME (conn.client_serial != 0);
#endif
  for (i = 0; i < NCALLS; i++)
    {
      dbus_bool_t ok;
      lock ();
      serials[i] = _dbus_connection_get_next_client_serial (&conn);
      VF_ASSERT (serials[i] != 0, "serials are non-zero");
      for (j = 0; j < i; j++) VF_ASSERT (serials[j] != serials[i], "consecutive serials are distinct");
      reqs[i] = mnew (DBUS_MESSAGE_TYPE_METHOD_CALL, serials[i], 0);
      calls[i] = _dbus_pending_call_new_unlocked (&conn, 25000, reply_handler_timeout); VF_ASSUME (calls[i] != 0);
      ok = _dbus_pending_call_set_timeout_error_unlocked (calls[i], reqs[i], serials[i]); VF_ASSUME (ok);
      ok = _dbus_connection_attach_pending_call_unlocked (&conn, calls[i]); VF_ASSUME (ok);
      _dbus_connection_unlock (&conn);
      ok = dbus_pending_call_set_notify (calls[i], notify, 0, 0); VF_ASSUME (ok);
    }
  event (0);
  for (i = 0; i < NCALLS; i++) VF_ASSERT (completions[i] <= 1, "no call completes twice (after one event)");
  event (1);
  for (i = 0; i < NCALLS; i++)
    {
      VF_ASSERT (completions[i] <= 1, "no call completes twice (after two events)");
      if (completions[i]) VF_ASSERT (completed_with_serial[i] == (int) serials[i], "a call is completed only by a message whose reply_serial is the call's serial");
      if (cancelled[i] && completions[i]) VF_ASSERT (0 == 1 || completions[i] == 1, "unreachable marker");
      if (completions[i]) VF_ASSERT (hfind (&ht, serials[i]) < 0 && !tmo[i].enabled, "a completed call is detached: no table entry, no timeout");
    }
  if (completions[0] == 1 && NCALLS > 1 && completions[1] == 1) VF_WITNESS_OPT ("both calls completed");
  if (completions[0] == 1 && completed_is_error[0]) VF_WITNESS_OPT ("completed by an error (timeout or error reply)");
  VF_WITNESS ("end of harness reached");
}
