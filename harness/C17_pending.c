/* C17 (sequential core) — "every call awaiting a reply completes exactly once":
 * the real pending-call machinery of dbus-connection.c + dbus-pending-call.c
 * (attach, dbus_connection_dispatch's reply lookup, complete_pending_call_and_unlock,
 * detach, reply_handler_timeout, dbus_pending_call_cancel, serial counter) under a
 * ghost connection lock, with NCALLS calls attached through the real API and a
 * two-step symbolic schedule of events:
 *   REPLY(r)   a message with symbolic reply_serial r is queued and dispatched
 *   TIMEOUT(i) the timeout of call i fires (only while its timeout is installed), then dispatch
 *   CANCEL(i)  the application cancels call i
 *   CLOSE      (jobs built with -DWITH_CLOSE, second step only) the peer closes: the real
 *              connection_timeout_and_complete_all_pending_calls_unlocked runs, then everything queued is dispatched
 * Checked after each step: no call is notified more than once; a reply completes
 * exactly the attached call whose serial equals its reply_serial and no other; a
 * cancelled call is never notified; a timeout completes its call with the local
 * NoReply error; completion detaches the call (a later event for it is a no-op);
 * the connection lock is released and re-taken consistently (ghost lock).
 * Threads and real interleavings are outside (atomic steps under the lock). */
#include <config.h>
#undef DBUS_ENABLE_VERBOSE_MODE
#include <dbus/dbus-internals.h>
#include <dbus/dbus-memory.h>
#include <stdlib.h>
#include <string.h>
#include "vf.h"
#include <dbus/dbus-timeout.h>
struct DBusTimeout { int id; int enabled; DBusTimeoutHandler handler; void *data; int interval; };
struct DBusTimeoutList { int n_added; };
struct DBusHashTable { uintptr_t key[2]; void *val[2]; int used[2]; };
struct DBusObjectTree { int x; };
struct DBusTransport { int connected; };
struct DBusCounter { int x; };
#include "/repo/dbus/dbus-connection.c"
#define slot_allocator vf_pc_slot_allocator      /* both files have a file-local slot_allocator */
#include "/repo/dbus/dbus-pending-call.c"
#undef slot_allocator
#ifndef NCALLS
#define NCALLS 2
#endif
#ifndef PRE
#define PRE 4
#endif
#ifndef TMO
#define TMO 25000
#endif
/* ---- messages: real DBusMessage objects (dbus-connection.c includes the private header) with a ghost side table ---- */
#define NMSG 8
static DBusMessage mobj[NMSG]; static struct { int type; dbus_uint32_t serial, reply_serial; int refs; int errkind; /* 1 NoReply (prepared timeout error), 2 Disconnected (generated in the blocking wait) */ } gm[NMSG]; static int n_mobj;
static int midx (const DBusMessage *m) { int i; for (i = 0; i < NMSG; i++) if (m == &mobj[i]) return i; VF_ASSERT (0, "unknown message object"); return 0; }
static DBusMessage *mnew (int type, dbus_uint32_t serial, dbus_uint32_t reply_serial) { VF_ASSERT (n_mobj < NMSG, "message pool"); gm[n_mobj].type = type; gm[n_mobj].serial = serial; gm[n_mobj].reply_serial = reply_serial; gm[n_mobj].refs = 1; return &mobj[n_mobj++]; }
int dbus_message_get_type (DBusMessage *m) { return gm[midx (m)].type; }
dbus_uint32_t dbus_message_get_serial (DBusMessage *m) { return gm[midx (m)].serial; }
dbus_uint32_t dbus_message_get_reply_serial (DBusMessage *m) { return gm[midx (m)].reply_serial; }
const char *dbus_message_get_interface (DBusMessage *m) { return 0; }
const char *dbus_message_get_member (DBusMessage *m) { return 0; }
const char *dbus_message_get_signature (DBusMessage *m) { return ""; }
const char *dbus_message_get_destination (DBusMessage *m) { return 0; }
dbus_bool_t dbus_message_is_signal (DBusMessage *m, const char *i, const char *me) { return 0; }
dbus_bool_t dbus_message_is_method_call (DBusMessage *m, const char *i, const char *me) { return 0; }
dbus_bool_t dbus_message_has_interface (DBusMessage *m, const char *i) { return 0; }
DBusMessage *dbus_message_ref (DBusMessage *m) { gm[midx (m)].refs++; return m; }
void dbus_message_unref (DBusMessage *m) { VF_ASSERT (gm[midx (m)].refs > 0, "message over-unref"); gm[midx (m)].refs--; }
DBusMessage *dbus_message_new_error (DBusMessage *reply_to, const char *name, const char *text) { DBusMessage *m = mnew (DBUS_MESSAGE_TYPE_ERROR, 0, gm[midx (reply_to)].serial); gm[midx (m)].errkind = 1; return m; }
/* generate_local_error_message (blocking wait) */
DBusMessage *dbus_message_new (int type) { return mnew (type, 0, 0); }
dbus_bool_t dbus_message_set_error_name (DBusMessage *m, const char *n) { gm[midx (m)].errkind = strcmp (n, DBUS_ERROR_DISCONNECTED) == 0 ? 2 : 3; return 1; }
void dbus_message_set_no_reply (DBusMessage *m, dbus_bool_t v) { }
dbus_bool_t dbus_message_set_reply_serial (DBusMessage *m, dbus_uint32_t r) { gm[midx (m)].reply_serial = r; return 1; }
void dbus_message_iter_init_append (DBusMessage *m, DBusMessageIter *it) { }
dbus_bool_t dbus_message_iter_append_basic (DBusMessageIter *it, int type, const void *v) { return 1; }
int dbus_timeout_get_interval (DBusTimeout *t) { return t->interval; }
dbus_bool_t _dbus_condvar_wait_timeout (DBusCondVar *c, DBusCMutex *m, int ms) { return 1; }
const char *dbus_message_type_to_string (int t) { return "t"; }
/* ---- ghost lock ---- */
static int lock_held, lock_errors;
void _dbus_rmutex_lock (DBusRMutex *m) { if (m == (DBusRMutex *) 1) { if (lock_held) lock_errors++; lock_held = 1; } }
void _dbus_rmutex_unlock (DBusRMutex *m) { if (m == (DBusRMutex *) 1) { if (!lock_held) lock_errors++; lock_held = 0; } }
void _dbus_cmutex_lock (DBusCMutex *m) { }
void _dbus_cmutex_unlock (DBusCMutex *m) { }
void _dbus_condvar_wait (DBusCondVar *c, DBusCMutex *m) { VF_ASSERT (0, "single-threaded model: nobody else holds the dispatch path"); }
void _dbus_condvar_wake_one (DBusCondVar *c) { }
dbus_int32_t _dbus_atomic_inc (DBusAtomic *a) { return a->value++; }
static DBusConnection conn;
dbus_int32_t _dbus_atomic_dec (DBusAtomic *a)
{ /* The application keeps its own reference to the connection and to every pending call throughout, so no reference count in the model
   * may drop to zero: that is an obligation here, and the function returns the CONSTANT "not the last reference", which keeps symex out of
   * the finalisers (_dbus_connection_last_unref, _dbus_pending_call_last_unref) whatever it can or cannot fold about the counter. */
  VF_ASSERT (a->value > 1, "no object is finalised while the application holds its reference");
  a->value--; return 2; }
dbus_int32_t _dbus_atomic_get (DBusAtomic *a) { return a->value; }
/* ---- int-keyed hash: 2-slot model calling the registered value-free function, as DBusHashTable does ---- */
/* keys are stored as the real table stores them: the _int API converts with _DBUS_INT_TO_POINTER (sign extension), the _uintptr API
 * takes the value as is; a caller mixing a signed and an unsigned view of a serial >= 2^31 therefore misses, as in the real table */
static int hfindp (DBusHashTable *h, uintptr_t k) { int i; for (i = 0; i < 2; i++) if (h->used[i] && h->key[i] == k) return i; return -1; }
static int hfind (DBusHashTable *h, dbus_uint32_t k) { int a = hfindp (h, (uintptr_t) (intptr_t) (int) k); return a >= 0 ? a : hfindp (h, (uintptr_t) k); }
static dbus_bool_t hins (DBusHashTable *h, uintptr_t k, void *v)
{ int i = hfindp (h, k); if (i < 0) { i = h->used[0] ? 1 : 0; VF_ASSERT (!h->used[i], "hash model capacity"); } h->key[i] = k; h->val[i] = v; h->used[i] = 1; return 1; }
static dbus_bool_t hrem (DBusHashTable *h, uintptr_t k) { int i = hfindp (h, k); void *v; if (i < 0) return 0; v = h->val[i]; h->used[i] = 0; free_pending_call_on_hash_removal (v); return 1; }
void *_dbus_hash_table_lookup_int (DBusHashTable *h, int key) { int i = hfindp (h, (uintptr_t) (intptr_t) key); return i < 0 ? 0 : h->val[i]; }
dbus_bool_t _dbus_hash_table_insert_int (DBusHashTable *h, int key, void *v) { return hins (h, (uintptr_t) (intptr_t) key, v); }
dbus_bool_t _dbus_hash_table_remove_int (DBusHashTable *h, int key) { return hrem (h, (uintptr_t) (intptr_t) key); }
void *_dbus_hash_table_lookup_uintptr (DBusHashTable *h, uintptr_t key) { int i = hfindp (h, key); return i < 0 ? 0 : h->val[i]; }
dbus_bool_t _dbus_hash_table_insert_uintptr (DBusHashTable *h, uintptr_t key, void *v) { return hins (h, key, v); }
dbus_bool_t _dbus_hash_table_remove_uintptr (DBusHashTable *h, uintptr_t key) { return hrem (h, key); }
int _dbus_hash_table_get_n_entries (DBusHashTable *h) { return h->used[0] + h->used[1]; }
void _dbus_hash_iter_init (DBusHashTable *h, DBusHashIter *it) { it->dummy1 = h; it->dummy5 = -1; }
dbus_bool_t _dbus_hash_iter_next (DBusHashIter *it) { DBusHashTable *h = it->dummy1; int i; for (i = it->dummy5 + 1; i < 2; i++) if (h->used[i]) { it->dummy5 = i; return 1; } it->dummy5 = 2; return 0; }
void *_dbus_hash_iter_get_value (DBusHashIter *it) { DBusHashTable *h = it->dummy1; return h->val[it->dummy5]; }
void _dbus_hash_iter_remove_entry (DBusHashIter *it) { DBusHashTable *h = it->dummy1; void *v = h->val[it->dummy5]; h->used[it->dummy5] = 0; free_pending_call_on_hash_removal (v); }
/* ---- timeouts ---- */
static struct DBusTimeout tmo[NCALLS]; static int n_tmo;
DBusTimeout *_dbus_timeout_new (int interval, DBusTimeoutHandler h, void *d, DBusFreeFunction f) { VF_ASSERT (n_tmo < NCALLS, "timeout pool"); tmo[n_tmo].id = n_tmo; tmo[n_tmo].interval = interval; tmo[n_tmo].handler = h; tmo[n_tmo].data = d; return &tmo[n_tmo++]; }
void _dbus_timeout_unref (DBusTimeout *t) { }
dbus_bool_t _dbus_timeout_list_add_timeout (DBusTimeoutList *l, DBusTimeout *t) { t->enabled = 1; l->n_added++; return 1; }
void _dbus_timeout_list_remove_timeout (DBusTimeoutList *l, DBusTimeout *t) { VF_ASSERT (t->enabled, "a timeout is removed only while installed"); t->enabled = 0; l->n_added--; }
void _dbus_timeout_list_toggle_timeout (DBusTimeoutList *l, DBusTimeout *t, dbus_bool_t e) { }
/* ---- misc environment ---- */
static void *slot_data[NCALLS]; DBusPendingCall *vf_calls[NCALLS];
#define calls vf_calls
static int call_index (DBusPendingCall *p) { int i; for (i = 0; i < NCALLS; i++) if (calls[i] == p) return i; return -1; }
void _dbus_data_slot_list_init (DBusDataSlotList *l) { }
void _dbus_data_slot_list_free (DBusDataSlotList *l) { }
void _dbus_data_slot_list_clear (DBusDataSlotList *l) { }
dbus_bool_t _dbus_data_slot_list_set (DBusDataSlotAllocator *a, DBusDataSlotList *l, int slot, void *data, DBusFreeFunction f, DBusFreeFunction *of, void **od) { *of = 0; *od = 0; return 1; }
void *_dbus_data_slot_list_get (DBusDataSlotAllocator *a, DBusDataSlotList *l, int slot) { return 0; }
dbus_bool_t _dbus_data_slot_allocator_alloc (DBusDataSlotAllocator *a, dbus_int32_t *s) { *s = 1; return 1; }
void _dbus_data_slot_allocator_free (DBusDataSlotAllocator *a, dbus_int32_t *s) { }
dbus_bool_t _dbus_transport_queue_messages (DBusTransport *t) { return 1; }
DBusDispatchStatus _dbus_transport_get_dispatch_status (DBusTransport *t) { return DBUS_DISPATCH_COMPLETE; }
dbus_bool_t _dbus_transport_get_is_connected (DBusTransport *t) { return t->connected; }
dbus_bool_t _dbus_transport_peek_is_authenticated (DBusTransport *t) { return 1; }
dbus_bool_t _dbus_transport_try_to_authenticate (DBusTransport *t) { return 1; }
static DBusConnection conn;
DBusHandlerResult _dbus_object_tree_dispatch_and_unlock (DBusObjectTree *t, DBusMessage *m, dbus_bool_t *found) { *found = 0; _dbus_connection_unlock (&conn); return DBUS_HANDLER_RESULT_NOT_YET_HANDLED; }
void *dbus_malloc0 (size_t n) { void *p = calloc (1, n <= sizeof (DBusPendingCall) ? sizeof (DBusPendingCall) : 512); VF_ASSUME (p != 0); return p; }
void *dbus_malloc (size_t n) { void *p = malloc (64); VF_ASSERT (n <= 64, "small alloc"); VF_ASSUME (p != 0); return p; }
void dbus_free (void *p) { if (p) free (p); }
void _dbus_bus_notify_shared_connection_disconnected_unlocked (DBusConnection *c) { }
void _dbus_counter_adjust_size (DBusCounter *c, long d) { }
void _dbus_counter_adjust_unix_fd (DBusCounter *c, long d) { }
void _dbus_message_remove_counter (DBusMessage *m, DBusCounter *c) { }
dbus_bool_t dbus_message_is_signal_local_disconnected_dummy;
/* ---- notifications ---- */
static int completions[NCALLS], completed_with_serial[NCALLS], completed_is_error[NCALLS], completed_errkind[NCALLS];
static void notify (DBusPendingCall *p, void *ud)
{
  int i = call_index (p); DBusMessage *r;
  VF_ASSERT (i >= 0, "notification for a known call");
  VF_ASSERT (!lock_held, "application callbacks run without the connection lock");
  completions[i]++;
  r = p->reply;
  completed_with_serial[i] = r ? (int) gm[midx (r)].reply_serial : -1;
  completed_is_error[i] = r ? (gm[midx (r)].type == DBUS_MESSAGE_TYPE_ERROR) : 0;
  completed_errkind[i] = r ? gm[midx (r)].errkind : 0;
}
int _dbus_current_generation = 1; static struct DBusHashTable ht; static struct DBusTimeoutList tl; static struct DBusTransport tr = { 1 }; static struct DBusObjectTree ot;
static DBusMessage *reqs[NCALLS]; static dbus_uint32_t serials[NCALLS]; static int cancelled[NCALLS];

#ifdef WITH_BLOCK
/* ---- environment of the blocking wait: a ghost clock and a ghost peer acting inside each transport iteration ---- */
static long now_ms, start_ms = -1, last_ms; static int iters, reply_queued, closed_by_peer, other_thread_completed;
static void lock (void);
void _dbus_get_monotonic_time (long *sec, long *usec)
{ now_ms += vf_range (0, 40000); if (start_ms < 0) start_ms = now_ms; last_ms = now_ms;
  if (iters >= (int) sizeof (SCRIPT) - 1 + 1 && TMO != DBUS_TIMEOUT_INFINITE) VF_ASSUME (now_ms - start_ms >= TMO);   /* bound: one silent iteration after the script the finite timeout has run out */
  *sec = now_ms / 1000; *usec = (now_ms % 1000) * 1000; }
static void queue_msg (int type, dbus_uint32_t rs)
{ DBusMessage *m = mnew (type, 90 + (dbus_uint32_t) iters, rs); DBusList *l = calloc (1, sizeof (DBusList)); VF_ASSUME (l != 0); l->data = m; l->next = l->prev = l; _dbus_connection_queue_received_message_link (&conn, l); }
/* the peer's behaviour is a CONCRETE script (job shape), one letter per transport iteration: N nothing, S unrelated signal, R the reply, C close;
 * after the script the peer stays silent.  The clock stays symbolic. */
#ifndef SCRIPT
#define SCRIPT "R"
#endif
void _dbus_transport_do_iteration (DBusTransport *t, unsigned int flags, int timeout_ms)
{
  char what = iters < (int) sizeof (SCRIPT) - 1 ? SCRIPT[iters] : 'N';
  VF_ASSERT (conn.have_connection_lock && conn.io_path_acquired, "the transport is iterated with the lock and the I/O path held");
  iters++;
  if (what == 'R' && t->connected) { queue_msg (vf_bool () ? DBUS_MESSAGE_TYPE_METHOD_RETURN : DBUS_MESSAGE_TYPE_ERROR, serials[0]); reply_queued = 1; }
  else if (what == 'C') { t->connected = 0; closed_by_peer = 1; }
  else if (what == 'S' && t->connected) queue_msg (DBUS_MESSAGE_TYPE_SIGNAL, 0);
  else if (what == 'T' && tmo[0].enabled)
    {
      /* ANOTHER THREAD, in the window in which the blocking iteration has dropped the connection lock around poll() (socket_do_iteration with
       * DBUS_ITERATION_BLOCK): the main loop fires the call's timeout and dispatches the NoReply error.  The blocked thread must notice on return
       * that its call was completed by somebody else and must not complete it again. */
      _dbus_connection_unlock (&conn);
      reply_handler_timeout (calls[0]);
      dbus_connection_dispatch (&conn);
      lock ();
      other_thread_completed = 1;
    }
}
#endif
static void lock (void) { _dbus_rmutex_lock ((DBusRMutex *) 1); conn.have_connection_lock = 1; }
static void event (int step)
{
#ifdef WITH_CLOSE
  /* close jobs: the first event is CONCRETE (job shape PRE: 0 reply for call 0 / 1 timeout of call 0 / 2 cancel call 0 / 4 nothing) so that
   * reference counts and table contents stay constants through the close (symbolic ones send symex into the connection finaliser) */
  int kind = step == 1 ? 3 : PRE,
#else
  int kind = vf_range (0, 2),
#endif
#ifdef WITH_CLOSE
      i = 0,
#else
      i = vf_range (0, NCALLS - 1),
#endif
      k, before[NCALLS], attached[NCALLS]; dbus_uint32_t r = 0;
  for (k = 0; k < NCALLS; k++) { before[k] = completions[k]; attached[k] = hfind (&ht, serials[k]) >= 0; }
  if (kind == 0)
    {
      DBusMessage *m = mnew (vf_bool () ? DBUS_MESSAGE_TYPE_METHOD_RETURN : DBUS_MESSAGE_TYPE_ERROR, 77 + step,
#ifdef WITH_CLOSE
                              r = serials[0]);
#else
                              r = vf_u32 ());
#endif
      DBusList *l = calloc (1, sizeof (DBusList));
      VF_ASSUME (l != 0);
      l->data = m; l->next = l->prev = l;
      lock ();
      _dbus_connection_queue_received_message_link (&conn, l);
      _dbus_connection_unlock (&conn);
      dbus_connection_dispatch (&conn);
    }
  else if (kind == 1)
    {
      VF_ASSUME (tmo[i].enabled);                   /* the main loop only fires installed timeouts */
      reply_handler_timeout (calls[i]);
      dbus_connection_dispatch (&conn);
    }
#ifdef WITH_CLOSE
  else if (kind == 3)
    {
      /* the peer closes: the transport reports "not connected" and the Disconnected signal prepared at connection creation is still unsent;
       * the real dispatch-status code then runs notify_disconnected_and_dispatch_complete_unlocked -> connection_timeout_and_complete_all_pending_calls_unlocked */
      DBusList *dl = calloc (1, sizeof (DBusList)); VF_ASSUME (dl != 0);
      dl->data = mnew (DBUS_MESSAGE_TYPE_SIGNAL, 0, 0); dl->next = dl->prev = dl;
      conn.disconnect_message_link = dl;
      tr.connected = 0;
      for (k = 0; k < NCALLS + 2; k++) dbus_connection_dispatch (&conn);
      VF_ASSERT (conn.disconnect_message_link == 0, "the Disconnected signal was queued (after the calls' errors)");
      VF_ASSERT (conn.n_incoming == 0, "everything queued by the close was dispatched");
    }
#endif
  else if (kind == 4) { }
  else
    {
      dbus_pending_call_cancel (calls[i]);
      cancelled[i] = 1;
    }
  VF_ASSERT (!lock_held && lock_errors == 0, "the connection lock is balanced around every step");
  for (k = 0; k < NCALLS; k++)
    {
      if (kind == 0)
        VF_ASSERT (completions[k] == before[k] + ((attached[k] && r == serials[k]) ? 1 : 0), "a reply completes exactly the attached call whose serial equals its reply_serial, and no other call");
      else if (kind == 1)
        VF_ASSERT (completions[k] == before[k] + ((k == i) ? 1 : 0) && (k != i || completed_is_error[k]), "a timeout completes exactly its own call, with the local NoReply error");
      else if (kind == 3)
        {
          VF_ASSERT (completions[k] <= before[k] + 1 && (attached[k] || completions[k] == before[k]), "a close completes no call twice and none that was already completed or cancelled");
          VF_ASSERT (hfind (&ht, serials[k]) < 0 && !tmo[k].enabled, "after the close no call is outstanding and no timeout is installed");
          /* the statement: "... or with a locally generated error if ... the connection closes first" */
          if (attached[k]) VF_FINDING (completions[k] == before[k] + 1 && completed_is_error[k], "F12-close-drops-notify-observed-calls");
        }
      else if (kind == 4) VF_ASSERT (completions[k] == before[k], "nothing happened");
      else
        VF_ASSERT (completions[k] == before[k] && (k != i || hfind (&ht, serials[k]) < 0), "cancelling notifies nobody and detaches the call");
    }
  if (kind == 0 && NCALLS > 0 && attached[0] && r == serials[0]) VF_WITNESS_OPT ("a reply completed call 0");
  if (kind == 1) VF_WITNESS_OPT ("a timeout fired");
  if (kind == 2 && step == 0) VF_WITNESS_OPT ("a call was cancelled first");
  if (kind == 3 && attached[0]) VF_WITNESS_OPT ("the peer closed with call 0 outstanding");
}

void harness (void)
{
  int i, j;
  conn.refcount.value = 1; conn.generation = 1; conn.mutex = (DBusRMutex *) 1; conn.slot_mutex = (DBusRMutex *) 2; conn.pending_replies = &ht; conn.timeouts = &tl; conn.transport = &tr; conn.objects = &ot;
#if defined (WITH_CLOSE) || defined (WITH_BLOCK)
  conn.client_serial = 41;                      /* close jobs: concrete serials keep the table model's slot choice constant (serial arithmetic is the two_events jobs' subject) */
#else
  conn.client_serial = vf_u32 (); VF_ASSUME (conn.client_serial != 0);
#endif
  for (i = 0; i < NCALLS; i++)
    {
      dbus_bool_t ok;
      lock ();
      serials[i] = _dbus_connection_get_next_client_serial (&conn);
      VF_ASSERT (serials[i] != 0, "serials are non-zero");
      for (j = 0; j < i; j++) VF_ASSERT (serials[j] != serials[i], "consecutive serials are distinct");
      reqs[i] = mnew (DBUS_MESSAGE_TYPE_METHOD_CALL, serials[i], 0);
      calls[i] = _dbus_pending_call_new_unlocked (&conn, TMO, reply_handler_timeout); VF_ASSUME (calls[i] != 0);
      ok = _dbus_pending_call_set_timeout_error_unlocked (calls[i], reqs[i], serials[i]); VF_ASSUME (ok);
      ok = _dbus_connection_attach_pending_call_unlocked (&conn, calls[i]); VF_ASSUME (ok);
      _dbus_connection_unlock (&conn);
      ok = dbus_pending_call_set_notify (calls[i], notify, 0, 0); VF_ASSUME (ok);
    }
#ifdef WITH_BLOCK
  {
    /* a connected connection always still owns its pre-allocated Disconnected message (_dbus_connection_new_for_transport) */
    { DBusList *dl = calloc (1, sizeof (DBusList)); VF_ASSUME (dl != 0); dl->data = mnew (DBUS_MESSAGE_TYPE_SIGNAL, 0, 0); dl->next = dl->prev = dl; conn.disconnect_message_link = dl; }
    _dbus_connection_block_pending_call (calls[0]);
    VF_ASSERT (!lock_held && lock_errors == 0 && !conn.io_path_acquired, "lock and I/O path released when the wait returns");
    VF_ASSERT (completions[0] == 1 && dbus_pending_call_get_completed (calls[0]), "the blocking wait returns only with the call completed, exactly once");
    VF_ASSERT (completed_with_serial[0] == (int) serials[0], "by a message carrying the call's serial");
    VF_ASSERT (hfind (&ht, serials[0]) < 0 && (TMO == DBUS_TIMEOUT_INFINITE || !tmo[0].enabled), "and detached");
    if (reply_queued) VF_ASSERT (completed_errkind[0] == 0, "a reply that arrived during the wait is what completes the call");
    if (completed_errkind[0] == 1 && !closed_by_peer && !other_thread_completed)
      VF_ASSERT (TMO != DBUS_TIMEOUT_INFINITE && last_ms - start_ms >= TMO, "a local NoReply while connected means the call's finite timeout has elapsed (never for an infinite timeout)");
    if (completed_errkind[0] == 2) VF_ASSERT (closed_by_peer, "a local Disconnected error only if the connection closed");
    if (closed_by_peer && !reply_queued) VF_ASSERT (completed_errkind[0] == 1 || completed_errkind[0] == 2, "a close without a reply completes the call with a locally generated error");
    if (other_thread_completed) VF_WITNESS_OPT ("completed by the other thread's dispatch while blocked");
    if (reply_queued) VF_WITNESS_OPT ("blocking wait completed by the reply");
    if (completed_errkind[0] == 1 && !closed_by_peer) VF_WITNESS_OPT ("blocking wait timed out");
    if (completed_errkind[0] == 2) VF_WITNESS_OPT ("blocking wait ended by Disconnected");
    VF_WITNESS ("end of harness reached");
  }
#else
  event (0);
  for (i = 0; i < NCALLS; i++) VF_ASSERT (completions[i] <= 1, "no call completes twice (after one event)");
  event (1);
  for (i = 0; i < NCALLS; i++)
    {
      VF_ASSERT (completions[i] <= 1, "no call completes twice (after two events)");
      if (completions[i]) VF_ASSERT (completed_with_serial[i] == (int) serials[i], "a call is completed only by a message whose reply_serial is the call's serial");
      if (cancelled[i] && completions[i]) VF_ASSERT (0 == 1 || completions[i] == 1, "unreachable marker");
      if (completions[i]) VF_ASSERT (hfind (&ht, serials[i]) < 0 && !tmo[i].enabled, "a completed call is detached: no table entry, no timeout");
    }
  if (completions[0] == 1 && NCALLS > 1 && completions[1] == 1) VF_WITNESS_OPT ("both calls completed");
  if (completions[0] == 1 && completed_is_error[0]) VF_WITNESS_OPT ("completed by an error (timeout or error reply)");
  VF_WITNESS ("end of harness reached");
#endif
}
