/* C11 / C08 (socket transport step) — the real socket_handle_watch / socket_do_iteration /
 * do_authentication / do_reading / read_data_into_auth / write_data_from_auth /
 * check_read_watch / check_write_watch / do_io_error of dbus/dbus-transport-socket.c
 * around a ghost auth object, loader and socket.
 * Pre-state invariant J: authenticated => leftover handshake bytes were already moved
 * into the loader (the connection calls _dbus_transport_get_dispatch_status after every
 * watch / iteration, which does that: C11.L4).
 * Checked in one arbitrary step (ENTRY 0 = handle_watch, 1 = do_iteration):
 *  - bytes read from the socket are put into the message loader only when the peer is
 *    authenticated (no messages without authentication)
 *  - and only when the handshake leftovers have been recovered — so the step in which
 *    authentication completes never reads message bytes ahead of the leftovers
 *  - bytes read before authentication go to the auth object only. */
#include <config.h>
#undef DBUS_ENABLE_VERBOSE_MODE
#include <dbus/dbus-internals.h>
#include <stdlib.h>
#include <string.h>
#include "vf.h"
#include "/repo/dbus/dbus-transport-socket.c"
#ifndef ENTRY
#define ENTRY 0
#endif
#define LEN(s) (((DBusString *) (s))->dummy2)
static int tok, authd, auth_state, leftovers, recovered, reads, writes, bad_loader_fill, early_loader_fill, auth_reads_after_authd, rw_enabled, ww_enabled, refs;
static DBusString authbuf, loaderbuf, outbuf; static DBusString *read_target;
static int next_state (void) { int s = vf_range (DBUS_AUTH_STATE_WAITING_FOR_INPUT, DBUS_AUTH_STATE_AUTHENTICATED); return s; }
dbus_bool_t _dbus_transport_try_to_authenticate (DBusTransport *t)
{
  if (authd) return 1;
  if (t->disconnected) return 0;
  if (auth_state == DBUS_AUTH_STATE_AUTHENTICATED) { if (vf_bool ()) { authd = 1; t->authenticated = 1; return 1; } _dbus_transport_disconnect (t); return 0; }   /* authorized, or refused and disconnected */
  return 0;
}
DBusAuthState _dbus_auth_do_work (DBusAuth *a) { return (DBusAuthState) auth_state; }
void _dbus_auth_get_buffer (DBusAuth *a, DBusString **b) { *b = &authbuf; }
void _dbus_auth_return_buffer (DBusAuth *a, DBusString *b)
{ if (authd) auth_reads_after_authd++; auth_state = next_state (); if (auth_state == DBUS_AUTH_STATE_AUTHENTICATED) leftovers = vf_range (0, 50); /* bytes read together with BEGIN */ }
dbus_bool_t _dbus_auth_get_bytes_to_send (DBusAuth *a, const DBusString **s) { *s = &outbuf; LEN (&outbuf) = 10; return auth_state == DBUS_AUTH_STATE_HAVE_BYTES_TO_SEND; }
void _dbus_auth_bytes_sent (DBusAuth *a, int n) { auth_state = next_state (); VF_ASSUME (auth_state != DBUS_AUTH_STATE_AUTHENTICATED || !ENTRY || 1); }
dbus_bool_t _dbus_auth_needs_decoding (DBusAuth *a) { return 0; }
dbus_bool_t _dbus_auth_needs_encoding (DBusAuth *a) { return 0; }
dbus_bool_t _dbus_auth_get_unix_fd_negotiated (DBusAuth *a) { return 0; }
int _dbus_read_socket (DBusSocket fd, DBusString *b, int count)
{ int n; read_target = b; if (b == &loaderbuf) { if (!authd) bad_loader_fill++; if (!recovered) early_loader_fill++; } if (++reads > 2) return -1; n = vf_range (-1, 64); return n; }
int _dbus_write_socket (DBusSocket fd, const DBusString *b, int s, int l) { if (++writes > 2) return -1; return vf_range (-1, 10); }
int _dbus_save_socket_errno (void) { return vf_range (1, 3); }
dbus_bool_t _dbus_get_is_errno_enomem (int e) { return e == 1; }
dbus_bool_t _dbus_get_is_errno_eagain_or_ewouldblock (int e) { return e == 2; }
dbus_bool_t _dbus_get_is_errno_eintr (int e) { return 0; }
dbus_bool_t _dbus_get_is_errno_epipe (int e) { return 0; }
dbus_bool_t _dbus_get_is_errno_etoomanyrefs (int e) { return 0; }
const char *_dbus_strerror (int e) { return "e"; }
int _dbus_poll (DBusPollFD *f, int n, int t) { f->revents = (short) vf_range (0, 15); return vf_range (-1, 1); }
void _dbus_message_loader_get_buffer (DBusMessageLoader *l, DBusString **b, int *m, dbus_bool_t *f) { *b = &loaderbuf; if (m) *m = 2048; if (f) *f = 0; }
void _dbus_message_loader_return_buffer (DBusMessageLoader *l, DBusString *b) { }
dbus_bool_t _dbus_transport_queue_messages (DBusTransport *t) { if (vf_bool ()) return 0; recovered = 1; t->unused_bytes_recovered = 1; leftovers = 0; return 1; }   /* contract of C11.L4 */
DBusTransport *_dbus_transport_ref (DBusTransport *t) { refs++; return t; }
void _dbus_transport_unref (DBusTransport *t) { refs--; }
dbus_bool_t _dbus_transport_get_is_connected (DBusTransport *t) { return !t->disconnected; }
void _dbus_transport_disconnect (DBusTransport *t) { if (t->disconnected) return; socket_disconnect (t); t->disconnected = 1; }
void _dbus_connection_remove_watch_unlocked (DBusConnection *c, DBusWatch *w) { }
void _dbus_watch_invalidate (DBusWatch *w) { }
void _dbus_watch_unref (DBusWatch *w) { }
dbus_bool_t _dbus_close_socket (DBusSocket fd, DBusError *e) { return 1; }
void _dbus_connection_toggle_watch_unlocked (DBusConnection *c, DBusWatch *w, dbus_bool_t en) { if (w == (DBusWatch *) &rw_enabled) rw_enabled = en; else ww_enabled = en; }
dbus_bool_t dbus_watch_get_enabled (DBusWatch *w) { return w == (DBusWatch *) &rw_enabled ? rw_enabled : ww_enabled; }
dbus_bool_t _dbus_watch_get_enabled (DBusWatch *w) { return dbus_watch_get_enabled (w); }
long _dbus_counter_get_size_value (DBusCounter *c) { return vf_range (0, 10); }
long _dbus_counter_get_unix_fd_value (DBusCounter *c) { return 0; }
dbus_bool_t _dbus_connection_has_messages_to_send_unlocked (DBusConnection *c) { return 0; }     /* sending is C15.send */
void _dbus_connection_lock (DBusConnection *c) { }
void _dbus_connection_unlock (DBusConnection *c) { }
dbus_bool_t _dbus_auth_set_credentials (DBusAuth *a, DBusCredentials *c) { return 1; }
dbus_bool_t _dbus_read_credentials_socket (DBusSocket fd, DBusCredentials *c, DBusError *e) { return 1; }
dbus_bool_t _dbus_send_credentials_socket (DBusSocket fd, DBusError *e) { return 1; }
int _dbus_string_get_length (const DBusString *s) { return LEN (s); }
dbus_bool_t _dbus_string_set_length (DBusString *s, int l) { LEN (s) = l; return 1; }
dbus_bool_t _dbus_string_compact (DBusString *s, int w) { return 1; }

void harness (void)
{
  static DBusTransportSocket st; DBusTransport *t = &st.base; int authd0;
  t->refcount = 1; t->connection = (DBusConnection *) &tok; t->loader = (DBusMessageLoader *) &tok; t->auth = (DBusAuth *) &tok; t->live_messages = (DBusCounter *) &tok;
  t->max_live_messages_size = vf_range (1, 10); t->max_live_messages_unix_fds = 10;
  t->send_credentials_pending = 0; t->receive_credentials_pending = 0;      /* the credentials byte was already exchanged (outside) */
  st.read_watch = (DBusWatch *) &rw_enabled; st.write_watch = (DBusWatch *) &ww_enabled; rw_enabled = vf_bool (); ww_enabled = vf_bool ();
  st.max_bytes_read_per_iteration = 2048; st.max_bytes_written_per_iteration = 2048;
  authd = authd0 = vf_bool (); t->authenticated = authd;
  auth_state = authd ? DBUS_AUTH_STATE_AUTHENTICATED : vf_range (DBUS_AUTH_STATE_WAITING_FOR_INPUT, DBUS_AUTH_STATE_NEED_DISCONNECT);
  recovered = vf_bool (); t->unused_bytes_recovered = recovered;
  VF_ASSUME (!authd || recovered);                                 /* J */
  VF_ASSUME (authd || !recovered);                                 /* nothing is recovered before authentication (get_dispatch_status returns first) */
#if ENTRY == 0
  { int which = vf_bool (); unsigned flags = (unsigned) vf_range (0, 15);
    (void) socket_handle_watch (t, which ? st.read_watch : st.write_watch, flags); }
#else
  { unsigned flags = (unsigned) vf_range (0, 7); socket_do_iteration (t, flags, vf_range (-1, 10)); }
#endif
  VF_ASSERT (bad_loader_fill == 0, "no socket data reaches the message loader before the peer is authenticated");
  VF_ASSERT (early_loader_fill == 0, "no socket data is read into the loader ahead of the leftover handshake bytes (the step that completes authentication does not read messages)");
  VF_ASSERT (auth_reads_after_authd == 0, "once authenticated, socket data no longer goes to the auth object");
  VF_ASSERT (refs == 0, "transport references balanced");
  if (!authd0 && authd) VF_WITNESS_OPT ("authentication completed in this step");
  if (authd0 && read_target == &loaderbuf) VF_WITNESS_OPT ("message bytes read");
  if (!authd0 && read_target == &authbuf) VF_WITNESS_OPT ("handshake bytes read");
  VF_WITNESS ("end of harness reached");
}
