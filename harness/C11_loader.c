/* C11.L2 / C15 (fd count) / C10.a — the real _dbus_message_loader_queue_messages
 * and load_message (dbus/dbus-message.c) as a control-flow skeleton: DBusString
 * operations are length-only ghosts, the framing decision, header load and body
 * validation are stubs whose outcomes are solver variables constrained by the
 * contract proved for them elsewhere (C01.a: a frame is reported complete only
 * if header+body bytes are buffered; header length >= 16, multiple of 8).
 * Checked, for a buffer holding up to FRAMES frames followed by a remainder:
 *  - each accepted frame removes exactly header_len+body_len bytes from the
 *    front of the buffer and appends exactly one message, in order;
 *  - the first invalid frame sets 'corrupted', queues nothing for it and nothing
 *    after it, and leaves the buffer untouched (stickiness: a second call queues
 *    nothing);
 *  - out of memory leaves buffer and queue as they were before that frame;
 *  - a frame announcing more fds than were received is corrupt; otherwise exactly
 *    the announced number of fds moves from the loader to the message. */
#include <config.h>
#undef DBUS_ENABLE_VERBOSE_MODE
#include <dbus/dbus-internals.h>
#include <dbus/dbus-memory.h>
#include <stdlib.h>
#include <string.h>
#include "vf.h"
#include "/repo/dbus/dbus-message.c"
#ifndef FRAMES
#define FRAMES 2
#endif
#define LEN(s) (((DBusString *) (s))->dummy2)
/* ---- ghost strings ---- */
static int oom_copy;
int _dbus_string_get_length (const DBusString *s) { return LEN (s); }
dbus_bool_t _dbus_string_set_length (DBusString *s, int l) { LEN (s) = l; return 1; }
dbus_bool_t _dbus_string_init_preallocated (DBusString *s, int n) { LEN (s) = 0; return 1; }
void _dbus_string_free (DBusString *s) { }
dbus_bool_t _dbus_string_copy_len (const DBusString *src, int start, int len, DBusString *dst, int at)
{ if (oom_copy) return 0; VF_ASSERT (start >= 0 && len >= 0 && start + len <= LEN (src), "copy stays inside the source"); LEN (dst) += len; return 1; }
static int cur;          /* index of the frame at the front of the buffer: advances when the loader deletes a frame from the front */
void _dbus_string_delete (DBusString *s, int start, int len) { VF_ASSERT (start >= 0 && len >= 0 && start + len <= LEN (s), "delete stays inside the string"); LEN (s) -= len; if (start == 0) cur++; }
dbus_bool_t _dbus_string_compact (DBusString *s, int max_waste) { return 1; }
/* ---- header / body stubs ---- */
struct frame { int framing_valid, hl, bl, header_ok, header_oom, body_ok; unsigned nfds; };
static struct frame fr[FRAMES + 1];
dbus_bool_t _dbus_header_have_message_untrusted (int max, DBusValidity *validity, int *byte_order, int *fal, int *header_len, int *body_len, const DBusString *str, int start, int len)
{
  struct frame *f = &fr[cur < FRAMES ? cur : FRAMES];
#ifdef GETBUF
  { int k, found = -1, off = 0; for (k = 0; k <= FRAMES; k++) { if (start == off) found = k; off += fr[k].hl + fr[k].bl; }
    VF_ASSERT (found >= 0 && len == LEN (str) - start, "the read-size hint walks the buffered data frame by frame"); f = &fr[found >= 0 ? found : 0]; }
#else
  VF_ASSERT (len == LEN (str) && start == 0, "framing looks at the whole buffered data from its front");
#endif
  *byte_order = 'l';
  if (!f->framing_valid) { *validity = DBUS_INVALID_BAD_BYTE_ORDER; return 0; }
  *validity = DBUS_VALID; *header_len = f->hl; *body_len = f->bl; *fal = f->hl - 16;
  return (long long) f->hl + f->bl <= len;
}
dbus_bool_t _dbus_header_init (DBusHeader *h) { LEN (&h->data) = 0; return 1; }
void _dbus_header_free (DBusHeader *h) { }
void _dbus_header_reinit (DBusHeader *h) { LEN (&h->data) = 0; }
dbus_bool_t _dbus_header_load (DBusHeader *h, DBusValidationMode mode, DBusValidity *validity, int byte_order, int fal, int header_len, int body_len, const DBusString *str)
{
  struct frame *f = &fr[cur];
  VF_ASSERT (header_len == f->hl && body_len == f->bl, "the header is loaded with the lengths the framing step reported");
  if (f->header_oom) { *validity = DBUS_VALIDITY_UNKNOWN_OOM_ERROR; return 0; }
  if (!f->header_ok) { *validity = DBUS_INVALID_BAD_SERIAL; return 0; }
  *validity = DBUS_VALID; LEN (&h->data) = header_len; return 1;
}
DBusValidity _dbus_validate_body_with_reason (const DBusString *sig, int sig_start, int byte_order, int *rem, const DBusString *value_str, int value_pos, int len)
{
  struct frame *f = &fr[cur];
  VF_ASSERT (value_pos == f->hl && len == f->bl, "the body is validated exactly on [header_len, header_len+body_len)");
  return f->body_ok ? DBUS_VALID : DBUS_INVALID_NOT_ENOUGH_DATA;
}
dbus_bool_t _dbus_header_get_field_basic (DBusHeader *h, int field, int type, void *value)
{ if (field == DBUS_HEADER_FIELD_UNIX_FDS) { *(dbus_uint32_t *) value = fr[cur].nfds; return fr[cur].nfds != 0; } return 0; }
dbus_bool_t _dbus_header_get_field_raw (DBusHeader *h, int field, const DBusString **str, int *pos) { static DBusString s; *str = &s; *pos = 0; return 0; }
void *_dbus_memdup (const void *mem, size_t n) { int *p = malloc (16 * sizeof (int)); const int *q = mem; VF_ASSUME (p != 0); VF_ASSERT (n <= 4 * sizeof (int), "at most 4 descriptors per frame (harness bound)"); p[0] = q[0]; p[1] = q[1]; p[2] = q[2]; p[3] = q[3]; return p; }
void dbus_free (void *p) { if (p) free (p); }
void *dbus_malloc0 (size_t n) { void *p; VF_ASSERT (n == sizeof (DBusMessage), "only messages are allocated"); p = calloc (1, sizeof (DBusMessage)); VF_ASSUME (p != 0); return p; }
dbus_int32_t _dbus_atomic_inc (DBusAtomic *a) { return a->value++; }
dbus_int32_t _dbus_atomic_dec (DBusAtomic *a) { return a->value--; }
dbus_int32_t _dbus_atomic_get (DBusAtomic *a) { return a->value; }
void _dbus_data_slot_list_init (DBusDataSlotList *l) { }
void _dbus_data_slot_list_clear (DBusDataSlotList *l) { }
void _dbus_data_slot_list_free (DBusDataSlotList *l) { }
const char *_dbus_getenv (const char *n) { return 0; }
void dbus_error_init (DBusError *e) { e->name = 0; e->message = 0; }
void dbus_error_free (DBusError *e) { e->name = 0; e->message = 0; }
static int n_fd_closes;
dbus_bool_t _dbus_close (int fd, DBusError *e) { n_fd_closes++; return 1; }
dbus_bool_t _dbus_register_shutdown_func (DBusShutdownFunction f, void *d) { return 1; }
void _dbus_verbose_bytes_of_string (const DBusString *s, int start, int len) { }
int _dbus_current_generation = 1;
static int n_unrefs;

void harness (void)
{
  static DBusMessageLoader loader; static int fdarr[16] = { 100, 101, 102, 103, 104, 105, 106, 107, 108, 109, 110, 111, 112, 113, 114, 115 };   /* descriptor identities: the i-th descriptor received */
  int i, total = 0, tail, len0, q, expect_q = 0, expect_len, stopped = 0, corrupt_expected = 0, oom_expected = 0;
  unsigned fds0, expect_fds;
  dbus_bool_t ok;
#ifdef GETBUF
  tail = vf_range (0, 8191);                  /* bytes of an incomplete next frame: any proper prefix */
#else
  tail = vf_range (0, 15);                    /* bytes of an incomplete next frame */
#endif
  for (i = 0; i <= FRAMES; i++)
    {
      fr[i].framing_valid = vf_bool (); fr[i].hl = vf_range (16, 4096); fr[i].bl = vf_range (0, 4096);
      VF_ASSUME (fr[i].hl % 8 == 0);           /* C01.a */
      fr[i].header_ok = vf_bool (); fr[i].header_oom = vf_bool (); fr[i].body_ok = vf_bool (); fr[i].nfds = (unsigned) vf_range (0, 4);
      if (i < FRAMES) total += fr[i].hl + fr[i].bl;
    }
  VF_ASSUME (fr[FRAMES].hl + fr[FRAMES].bl > tail);     /* the remainder is an incomplete frame (or fewer than 16 bytes) */
  loader.refcount = 1; LEN (&loader.data) = len0 = total + tail; loader.max_message_size = 1 << 27;
  loader.unix_fds = fdarr; loader.n_unix_fds_allocated = 16; loader.n_unix_fds = fds0 = (unsigned) vf_range (0, 8);
  oom_copy = vf_bool ();
  cur = 0;
#ifdef GETBUF
  {
    /* C11 / C15: the read-size hint.  While descriptors are held (a message carrying fds is only partly buffered), the next read must not go past the end
     * of the message that is being completed — bytes of the following message read without room for its descriptors would lose them. */
    DBusString *bufp = 0; int max = -1; dbus_bool_t may = 99; int needed = fr[FRAMES].hl + fr[FRAMES].bl;
    for (i = 0; i < FRAMES; i++) VF_ASSUME (fr[i].framing_valid);         /* complete frames in front are well-framed (else the loader has already declared corruption); a bare 16-byte frame (no header fields, no body) is well-framed too: F23 */
    _dbus_message_loader_get_buffer (&loader, &bufp, &max, &may);
    VF_ASSERT (bufp == &loader.data && loader.buffer_outstanding, "the loader's own buffer is handed out");
    if (fds0 == 0) VF_ASSERT (max == DBUS_MAXIMUM_MESSAGE_LENGTH && may == TRUE, "nothing held: read freely");
    else if (tail == 0) VF_ASSERT (max == DBUS_MAXIMUM_MESSAGE_LENGTH && may == TRUE, "no partial message buffered: read freely");
    else if (tail < 16) { VF_ASSERT (max == 16 - tail && may == FALSE, "fewer than 16 bytes of the next message: read only the rest of its fixed header, without descriptors"); VF_WITNESS_OPT ("partial fixed header"); }
    else if (fr[FRAMES].framing_valid)
      { VF_ASSERT (max == needed - tail && may == FALSE, "a partly buffered message: read exactly the bytes it still lacks (never into the next message), without descriptors"); VF_WITNESS_OPT ("partial message"); }
    VF_WITNESS ("end of harness reached");
  }
#else
  /* the loader advances 'cur' implicitly: one frame is consumed per appended message */
  ok = _dbus_message_loader_queue_messages (&loader);
  /* reference walk */
  expect_len = len0; expect_fds = fds0;
  for (i = 0; i < FRAMES && !stopped; i++)
    {
      struct frame *f = &fr[i];
      if (!f->framing_valid) { corrupt_expected = 1; stopped = 1; }
      else if (f->header_oom) { oom_expected = 1; stopped = 1; }
      else if (!f->header_ok || !f->body_ok || f->nfds > expect_fds) { corrupt_expected = 1; stopped = 1; }
      else if (oom_copy) { oom_expected = 1; stopped = 1; }
      else { expect_q++; expect_len -= f->hl + f->bl; expect_fds -= f->nfds; }
    }
  if (!stopped && tail >= 16 && !fr[FRAMES].framing_valid) corrupt_expected = 1;
  q = _dbus_list_get_length (&loader.messages);
  VF_ASSERT (q == expect_q, "exactly the complete valid frames before the first invalid one become messages");
  VF_ASSERT (LEN (&loader.data) == expect_len, "each message consumes exactly header_len + body_len bytes from the front; nothing else is consumed");
  VF_ASSERT ((loader.corrupted != 0) == (corrupt_expected != 0), "the stream is declared corrupt exactly at the first invalid frame");
  if (oom_expected && oom_copy && stopped && fr[expect_q].nfds > 0 && fr[expect_q].nfds <= expect_fds)
    /* F10: the frame's descriptors are handed to the message before the last fallible steps; on out-of-memory they are
     * closed with the discarded message while the frame's bytes stay buffered, so the retry finds too few descriptors */
    VF_FINDING (loader.n_unix_fds == expect_fds, "F10-loader-oom-after-fds-moved");
  else
    VF_ASSERT (loader.n_unix_fds == expect_fds, "exactly the announced descriptors move from the loader to the messages");
  /* identities, not only counts: message k owns the next announced descriptors in arrival order, the loader keeps the rest in order */
  if (!(oom_expected && oom_copy))
    {
      DBusList *ml = _dbus_list_get_first_link (&loader.messages); unsigned off = 0, k2;
      for (i = 0; i < FRAMES; i++)
        if (i < expect_q && ml != 0)
          {
            DBusMessage *mm = ml->data;
            VF_ASSERT (mm->n_unix_fds == fr[i].nfds, "each message owns exactly the number of descriptors it announced");
            for (k2 = 0; k2 < 4; k2++) if (k2 < fr[i].nfds) VF_ASSERT (mm->unix_fds[k2] == (int) (100 + off + k2), "each message gets the descriptors that arrived for it, in order");
            off += fr[i].nfds; ml = _dbus_list_get_next_link (&loader.messages, ml);
          }
#define VF_LEFT(K) if ((K) < loader.n_unix_fds) VF_ASSERT (loader.unix_fds[K] == (int) (100 + off + (K)), "descriptors not yet claimed stay in the loader in arrival order (each is handed out or closed exactly once)")
      VF_LEFT (0); VF_LEFT (1); VF_LEFT (2); VF_LEFT (3); VF_LEFT (4); VF_LEFT (5); VF_LEFT (6); VF_LEFT (7);
    }
  VF_ASSERT ((ok != 0) == !oom_expected || corrupt_expected, "out of memory is reported as such");
  /* stickiness */
  if (loader.corrupted)
    {
      int lenc = LEN (&loader.data);
      ok = _dbus_message_loader_queue_messages (&loader);
      VF_ASSERT (ok && _dbus_list_get_length (&loader.messages) == q && LEN (&loader.data) == lenc, "after corruption nothing further is ever queued or consumed");
      VF_WITNESS_OPT ("corrupt stream");
    }
  if (expect_q == FRAMES && FRAMES > 0) VF_WITNESS ("all frames loaded");
  VF_WITNESS ("end of harness reached");
#endif
}
