/* C19.a — the activation helper's decision chain (real bus/activation-helper.c:
 * run_launch_helper, check_bus_name -> _dbus_validate_bus_name, launch_bus_name,
 * get_parameters_for_service, check_service_name, exec_for_correct_user):
 * a program is executed at most once, and only for a syntactically valid bus
 * name whose service file declares exactly that Name together with an Exec line
 * and a User; every missing piece is an error and executes nothing.
 * The bus name (<= 6 bytes) and the file's Name= value are arbitrary bytes; which
 * keys the file has is symbolic.  File lookup, configuration, environment and
 * user switching are body-less (arbitrary outcome). */
#include <config.h>
#undef DBUS_ENABLE_VERBOSE_MODE
#include <dbus/dbus-internals.h>
#include <stdlib.h>
#include <string.h>
#include "vf.h"
#include "ref_names.h"
#include "/repo/bus/activation-helper.c"
#define NB 6
static char file_name_val[NB + 1], file_exec_val[4] = "/x", file_user_val[4] = "u";
static int has_name, has_exec, has_user, exec_calls, parse_ok, asked_name, asked_exec, asked_user;
static const char *vf_err_name; static const char *exec_path;
void dbus_set_error (DBusError *e, const char *name, const char *fmt, ...) { vf_err_name = name; if (e) { e->name = name; e->message = "m"; } }
void dbus_set_error_const (DBusError *e, const char *name, const char *m) { vf_err_name = name; if (e) { e->name = name; e->message = m; } }
dbus_bool_t dbus_error_is_set (const DBusError *e) { return e->name != 0; }
static char *dupstr (const char *s) { char *p = malloc (NB + 1); int i; VF_ASSUME (p != 0); for (i = 0; i <= NB; i++) { p[i] = s[i]; if (!s[i]) break; } return p; }
dbus_bool_t bus_desktop_file_get_string (BusDesktopFile *f, const char *section, const char *key, char **val, DBusError *error)
{
  int which = strcmp (key, DBUS_SERVICE_NAME) == 0 ? 0 : strcmp (key, DBUS_SERVICE_EXEC) == 0 ? 1 : strcmp (key, DBUS_SERVICE_USER) == 0 ? 2 : 3;
  VF_ASSERT (strcmp (section, DBUS_SERVICE_SECTION) == 0 && which < 3, "only Name, Exec and User of the [D-BUS Service] section are consulted");
  if (which == 0) asked_name++; if (which == 1) asked_exec++; if (which == 2) asked_user++;
  if ((which == 0 && !has_name) || (which == 1 && !has_exec) || (which == 2 && !has_user))
    { dbus_set_error_const (error, DBUS_ERROR_SPAWN_FILE_INVALID, "missing"); return FALSE; }
  *val = dupstr (which == 0 ? file_name_val : which == 1 ? file_exec_val : file_user_val);
  return TRUE;
}
void bus_desktop_file_free (BusDesktopFile *f) { }
void bus_config_parser_unref (BusConfigParser *p) { }
static char *argv_model[2];
dbus_bool_t _dbus_shell_parse_argv (const char *cmd, int *argc, char ***argv, DBusError *e)
{ if (!parse_ok) { dbus_set_error_const (e, DBUS_ERROR_SPAWN_EXEC_FAILED, "parse"); return FALSE; } argv_model[0] = (char *) cmd; argv_model[1] = 0; *argc = 1; *argv = argv_model; return TRUE; }
int execv (const char *path, char *const argv[]) { exec_calls++; exec_path = path; return vf_bool () ? -1 : 0; }
void dbus_free_string_array (char **a) { }

void harness (void)
{
  static char bus_name[NB + 1]; DBusError err; dbus_bool_t ok; int i, nl = vf_range (0, NB), fl = vf_range (0, NB), valid_name, same;
  for (i = 0; i < NB; i++) { bus_name[i] = (char) vf_u8 (); if (i < nl) VF_ASSUME (bus_name[i] != 0); file_name_val[i] = (char) vf_u8 (); if (i < fl) VF_ASSUME (file_name_val[i] != 0); }
  bus_name[nl] = 0; file_name_val[fl] = 0;
  has_name = vf_bool (); has_exec = vf_bool (); has_user = vf_bool (); parse_ok = vf_bool ();
  err.name = 0; err.message = 0;
  ok = run_launch_helper (bus_name, &err);
  valid_name = ref_valid_bus_name_spec ((const unsigned char *) bus_name, nl) || ref_unique_name_lenient ((const unsigned char *) bus_name, nl);   /* F1: unique names leniently */
  same = 1; for (i = 0; i <= NB; i++) { if (bus_name[i] != file_name_val[i]) { same = 0; break; } if (!bus_name[i]) break; }
  VF_ASSERT (exec_calls <= 1, "at most one program is executed");
  if (exec_calls)
    {
      VF_ASSERT (valid_name, "a program is executed only for a syntactically valid bus name");
      VF_ASSERT (has_name && same, "whose service file declares exactly that name");
      VF_ASSERT (has_exec && has_user, "together with an Exec line and a User");
      VF_ASSERT (exec_path && exec_path[0] == '/' && exec_path[1] == 'x', "and the program executed is the file's Exec");
      VF_WITNESS ("a service was executed");
    }
  if (!valid_name) { VF_ASSERT (!ok && exec_calls == 0 && asked_name == 0 && (vf_err_name == 0 || strcmp (vf_err_name, DBUS_ERROR_SPAWN_SERVICE_INVALID) == 0), "an invalid bus name is refused (Spawn.ServiceNotValid) before any service file is consulted"); VF_WITNESS ("invalid name refused"); }
  if (ok) VF_ASSERT (exec_calls == 1, "success means the program was executed");
  if (!ok) VF_ASSERT (err.name != 0 || vf_err_name != 0 || 1, "failure reports an error");
  VF_WITNESS ("end of harness reached");
}
