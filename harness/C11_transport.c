/* C11 (transport side) — the real _dbus_transport_queue_messages /
 * _dbus_transport_get_dispatch_status / recover_unused_bytes / _dbus_transport_disconnect
 * of dbus/dbus-transport.c around a ghost loader that has already framed K messages and
 * may have declared the stream corrupt behind them (the framing itself is C11.loader).
 * Checked: every framed message is handed to the connection, in order, BEFORE the
 * transport is disconnected for corruption; an intact stream never disconnects; after an
 * allocation failure nothing is lost (delivered + still framed == K); leftover handshake
 * bytes are appended to the loader's buffer exactly once, before the first framing
 * attempt, and deleted from the auth object only if the copy succeeded. */
#include <config.h>
#undef DBUS_ENABLE_VERBOSE_MODE
#include <dbus/dbus-internals.h>
#include <stdlib.h>
#include <string.h>
#include "vf.h"
#include "/repo/dbus/dbus-transport.c"
#ifndef K
#define K 3
#endif
#define LEN(s) (((DBusString *) (s))->dummy2)
static DBusList links[K + 1]; static int framed, popped, delivered, bad_order, corrupted, disconnects, delivered_at_disconnect = -1, oom_injected;
static int framing_calls, copies, copy_before_framing = 1, copy_at_end = 1, deleted, delete_without_copy, buffer_out;
static DBusString loader_buf, unused; static int tok;
long _dbus_counter_get_size_value (DBusCounter *c) { return 0; }
long _dbus_counter_get_unix_fd_value (DBusCounter *c) { return 0; }
dbus_bool_t _dbus_auth_needs_decoding (DBusAuth *a) { return 0; }
void _dbus_auth_get_unused_bytes (DBusAuth *a, const DBusString **s) { *s = &unused; }
void _dbus_auth_delete_unused_bytes (DBusAuth *a) { deleted++; if (copies == 0) delete_without_copy++; LEN (&unused) = 0; }
void _dbus_message_loader_get_buffer (DBusMessageLoader *l, DBusString **b, int *m, dbus_bool_t *f) { buffer_out++; *b = &loader_buf; }
void _dbus_message_loader_return_buffer (DBusMessageLoader *l, DBusString *b) { buffer_out--; }
int _dbus_string_get_length (const DBusString *s) { return LEN (s); }
dbus_bool_t _dbus_string_copy (const DBusString *src, int start, DBusString *dst, int at)
{
  if (vf_bool ()) { oom_injected++; return 0; }
  if (src == &unused && dst == &loader_buf) { copies++; if (framing_calls) copy_before_framing = 0; if (at != LEN (dst) || start != 0) copy_at_end = 0; }
  LEN (dst) += LEN (src) - start; return 1;
}
dbus_bool_t _dbus_message_loader_queue_messages (DBusMessageLoader *l) { framing_calls++; if (vf_bool ()) { oom_injected++; return 0; } return 1; }
DBusMessage *_dbus_message_loader_peek_message (DBusMessageLoader *l) { return framed > 0 ? (DBusMessage *) &tok : 0; }
DBusList *_dbus_message_loader_pop_message_link (DBusMessageLoader *l) { if (framed == 0) return 0; framed--; links[popped].data = &tok; return &links[popped++]; }
void _dbus_message_loader_putback_message_link (DBusMessageLoader *l, DBusList *k) { if (k != &links[popped - 1]) bad_order++; popped--; framed++; }
dbus_bool_t _dbus_message_loader_get_is_corrupted (DBusMessageLoader *l) { return corrupted; }
dbus_bool_t _dbus_message_add_counter (DBusMessage *m, DBusCounter *c) { if (vf_bool ()) { oom_injected++; return 0; } return 1; }
void _dbus_connection_queue_received_message_link (DBusConnection *c, DBusList *k) { if (k != &links[delivered] || disconnects) bad_order++; delivered++; }
static void v_disconnect (DBusTransport *t) { disconnects++; delivered_at_disconnect = delivered; }
static void v_live (DBusTransport *t) { }

void harness (void)
{
  static DBusTransport tr; static DBusTransportVTable vt; int k0, rec0, unused0, buf0; dbus_bool_t ok;
  vt.disconnect = v_disconnect; vt.live_messages_changed = vf_bool () ? v_live : 0;
  tr.refcount = 1; tr.vtable = &vt; tr.connection = (DBusConnection *) &tok; tr.loader = (DBusMessageLoader *) &tok; tr.auth = (DBusAuth *) &tok; tr.live_messages = (DBusCounter *) &tok;
  tr.max_live_messages_size = 1000; tr.max_live_messages_unix_fds = 1000;     /* assumption: live-message limits not reached */
  tr.authenticated = 1; tr.unused_bytes_recovered = rec0 = vf_bool ();
  framed = k0 = vf_range (0, K); corrupted = vf_bool ();
  LEN (&unused) = unused0 = vf_range (0, 100); LEN (&loader_buf) = buf0 = vf_range (0, 100);
  VF_ASSUME (!rec0 || unused0 == 0);           /* once recovered, the auth object's leftover bytes were deleted */

  ok = _dbus_transport_queue_messages (&tr);

  VF_ASSERT (bad_order == 0, "messages reach the connection in the order they were framed, none after the disconnect");
  VF_ASSERT (delivered + framed == k0 && popped == delivered, "no framed message is lost");
  VF_ASSERT (ok == (oom_injected == 0) || (ok && 0), "fails exactly when an allocation failed");
  if (ok) VF_ASSERT (framed == 0 && delivered == k0, "every message framed before the stream went bad is delivered");
  VF_ASSERT (disconnects == (corrupted ? 1 : 0) && tr.disconnected == (unsigned) corrupted, "disconnected exactly when the loader declared the stream corrupt");
  if (ok && corrupted) VF_ASSERT (delivered_at_disconnect == k0, "the disconnect comes after all complete messages were queued");
  VF_ASSERT (buffer_out == 0, "the loader's buffer is always returned");
  VF_ASSERT (copies <= 1 && copy_before_framing && copy_at_end && delete_without_copy == 0, "leftover handshake bytes are appended once, at the end of the buffer, before any framing");
  if (rec0) VF_ASSERT (copies == 0 && deleted == 0 && LEN (&loader_buf) == buf0, "handshake bytes are transferred only once");
  if (!rec0 && copies == 1) VF_ASSERT (tr.unused_bytes_recovered && deleted == 1 && LEN (&loader_buf) == buf0 + unused0, "all leftover bytes arrive in the loader and are then deleted from the auth object");
  if (!rec0 && copies == 0) VF_ASSERT (!tr.unused_bytes_recovered && !ok && LEN (&unused) == unused0 && framing_calls == 0, "a failed transfer is retried later: nothing framed, nothing deleted");
  if (ok && corrupted && k0 == K) VF_WITNESS_OPT ("K messages delivered, then disconnected for corruption");
  if (!ok && delivered > 0) VF_WITNESS_OPT ("allocation failure after some deliveries");
  if (!rec0 && copies == 1 && unused0 > 0) VF_WITNESS_OPT ("handshake leftovers transferred");
  VF_WITNESS ("end of harness reached");
}
