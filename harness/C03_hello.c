/* C03.b / C03.c — unique-name minting and Hello (real create_unique_client_name
 * and bus_driver_handle_hello from bus/driver.c).  DBusString operations on the
 * name under construction are ghost-modelled (they record the integers appended);
 * the two static counters are arbitrary (cbmc --nondet-static) within the
 * reachable-state invariant, so two consecutive mints from ANY reachable counter
 * state are compared: by induction all names ever minted are pairwise distinct. */
#include <config.h>
#undef DBUS_ENABLE_VERBOSE_MODE
#include <dbus/dbus-internals.h>
#include <stdlib.h>
#include <string.h>
#include "vf.h"
#include "msg_model.h"
struct DBusConnection { int id; int active; int completes; };
#include "/repo/bus/driver.c"

/* ---- ghost string ---- */
static int g_len, g_ints[4], g_nints, g_colon, g_dot, g_append_fail_at, g_appends;
static int app (void) { g_appends++; return !(g_append_fail_at > 0 && g_appends == g_append_fail_at); }
dbus_bool_t _dbus_string_init (DBusString *s) { g_len = 0; g_nints = 0; g_colon = g_dot = 0; return 1; }
void _dbus_string_free (DBusString *s) { }
int _dbus_string_get_length (const DBusString *s) { return g_len; }
dbus_bool_t _dbus_string_append (DBusString *s, const char *t) { if (!app ()) return 0; if (t[0] == ':') g_colon++; else if (t[0] == '.') g_dot++; g_len++; return 1; }
dbus_bool_t _dbus_string_append_int (DBusString *s, long v) { if (!app ()) return 0; VF_ASSERT (g_nints < 4, "ghost string capacity"); g_ints[g_nints++] = (int) v; g_len++; return 1; }
dbus_bool_t _dbus_string_set_length (DBusString *s, int l) { g_len = l; if (l == 0) { g_nints = 0; g_colon = g_dot = 0; } return 1; }
static int lookups, collisions;
BusService *bus_registry_lookup (BusRegistry *r, const DBusString *s) { lookups++; if (collisions > 0) { collisions--; return (BusService *) &lookups; } return 0; }

/* ---- Hello environment ---- */
static int limits_ok, complete_ok, welcome_ok, ensure_ok, setsender_ok, g_order, o_complete, o_ensure, o_mint_done, g_completed_with_major, g_completed_with_minor;
static int tok;
dbus_bool_t bus_connection_is_active (DBusConnection *c) { return c->active; }
BusConnections *bus_connection_get_connections (DBusConnection *c) { return (BusConnections *) &tok; }
BusContext *bus_connection_get_context (DBusConnection *c) { return (BusContext *) &tok; }
BusRegistry *bus_connection_get_registry (DBusConnection *c) { return (BusRegistry *) &tok; }
const char *bus_connection_get_name (DBusConnection *c) { return ":x"; }
dbus_bool_t bus_connections_check_limits (BusConnections *cs, DBusConnection *c, const char **ln, int *l, DBusError *e)
{ if (!limits_ok) { *ln = "x"; *l = 1; e->name = DBUS_ERROR_LIMITS_EXCEEDED; e->message = "m"; } return limits_ok; }
void bus_context_log (BusContext *c, DBusSystemLogSeverity s, const char *m, ...) { }
dbus_bool_t bus_connection_complete (DBusConnection *c, const DBusString *name, DBusError *e)
{
  c->completes++; o_complete = ++g_order;
  VF_ASSERT (g_colon == 1 && g_dot == 1 && g_nints == 2, "the name given to the connection is ':' MAJOR '.' MINOR");
  g_completed_with_major = g_ints[0]; g_completed_with_minor = g_ints[1];
  if (!complete_ok) { e->name = DBUS_ERROR_NO_MEMORY; e->message = "m"; return 0; }
  c->active = 1; return 1;
}
static int g_setsender_calls, o_setsender;
dbus_bool_t dbus_message_set_sender (DBusMessage *m, const char *n) { g_setsender_calls++; o_setsender = ++g_order; return setsender_ok; }
BusService *bus_registry_ensure (BusRegistry *r, const DBusString *n, DBusConnection *c, dbus_uint32_t f, BusTransaction *t, DBusError *e)
{ o_ensure = ++g_order; if (!ensure_ok) { e->name = DBUS_ERROR_NO_MEMORY; e->message = "m"; return 0; } return (BusService *) &tok; }
/* bus_driver_send_welcome_message is a static of driver.c; its callees: */
DBusMessage *dbus_message_new_method_return (DBusMessage *m) { static struct DBusMessage r; if (!welcome_ok) return 0; r.refcount = 1; return &r; }
dbus_bool_t dbus_message_append_args (DBusMessage *m, int first, ...) { return 1; }
dbus_bool_t bus_transaction_send_from_driver (BusTransaction *t, DBusConnection *c, DBusMessage *m) { return 1; }
dbus_bool_t dbus_message_has_signature (DBusMessage *m, const char *sig) { return 1; }
void dbus_message_unref (DBusMessage *m) { }
void dbus_set_error (DBusError *e, const char *name, const char *fmt, ...) { if (e) { e->name = name; e->message = "m"; } }
void dbus_set_error_const (DBusError *e, const char *name, const char *m) { if (e) { e->name = name; e->message = m; } }
void dbus_error_init (DBusError *e) { e->name = 0; e->message = 0; }
dbus_bool_t dbus_error_is_set (const DBusError *e) { return e->name != 0; }
void dbus_move_error (DBusError *s, DBusError *d) { if (d) *d = *s; s->name = 0; s->message = 0; }
const char bus_no_memory_message[] = "oom";

extern int vf_assert_as_assume;
static void reset (void)
{
  vf_assert_as_assume = 0;
  g_len = g_nints = g_colon = g_dot = g_append_fail_at = g_appends = 0; lookups = 0; collisions = 0;
  limits_ok = complete_ok = welcome_ok = ensure_ok = setsender_ok = 1; g_order = o_complete = o_ensure = 0; g_setsender_calls = o_setsender = 0;
}

void harness (void)
{
#if MODE == 0
  DBusString s; int M1, m1, M2, m2; dbus_bool_t ok1, ok2;
  reset ();
  /* first mint from an arbitrary reachable counter state */
  _dbus_string_init (&s); collisions = vf_range (0, 2);
  vf_assert_as_assume = 1;      /* reachable counter states = those in which the function's own assertions hold */
  ok1 = create_unique_client_name ((BusRegistry *) &tok, &s);
  vf_assert_as_assume = 0;
  VF_ASSERT (ok1, "minting succeeds when memory is available");
  VF_ASSERT (g_colon == 1 && g_dot == 1 && g_nints == 2, "name is ':' MAJOR '.' MINOR");
  M1 = g_ints[0]; m1 = g_ints[1];
  VF_ASSERT (M1 >= 1 && m1 >= 0, "major >= 1, minor >= 0");
  VF_ASSUME (M1 < 0x7ffffffe);   /* outside the claim: the last two majors of the 2^62-name space (the code aborts deliberately when it is exhausted; a failed mint at minor 0 skips one major) */
  _dbus_string_init (&s); collisions = vf_range (0, 2); g_appends = 0; g_append_fail_at = vf_range (0, 4);
  ok2 = create_unique_client_name ((BusRegistry *) &tok, &s);
  if (ok2)
    {
      M2 = g_ints[0]; m2 = g_ints[1];
      VF_ASSERT (g_colon == 1 && g_dot == 1 && g_nints == 2, "name is ':' MAJOR '.' MINOR");
      VF_ASSERT (M2 > M1 || (M2 == M1 && m2 > m1), "every newly minted name is lexicographically above every earlier one (never reused)");
      VF_WITNESS ("two names minted");
      if (M2 > M1) VF_WITNESS_OPT ("minor counter wrapped into the next major");
    }
  else
    {
      /* OOM while building the name: a later retry must still not go backwards */
      _dbus_string_init (&s); g_appends = 0; g_append_fail_at = 0; collisions = 0;
      ok2 = create_unique_client_name ((BusRegistry *) &tok, &s);
      VF_ASSERT (ok2 && (g_ints[0] > M1 || (g_ints[0] == M1 && g_ints[1] > m1)), "a failed mint does not move the counters backwards");
      VF_WITNESS ("mint failed then retried");
    }
#else
  static struct DBusConnection conn; static struct DBusMessage msg; DBusError err; dbus_bool_t ok; int was_active;
  reset ();
  conn.active = was_active = vf_bool (); conn.completes = 0;
  limits_ok = vf_bool (); complete_ok = vf_bool (); welcome_ok = vf_bool (); ensure_ok = vf_bool (); setsender_ok = vf_bool ();
  collisions = vf_range (0, 2);
  vf_assert_as_assume = 1;   /* counters: reachable states only (see MODE 0) */
  err.name = 0; err.message = 0;
  ok = bus_driver_handle_hello (&conn, (BusTransaction *) &tok, &msg, &err);
  if (was_active)
    {
      VF_ASSERT (!ok && err.name && strcmp (err.name, DBUS_ERROR_FAILED) == 0, "a second Hello fails");
      VF_ASSERT (conn.completes == 0 && lookups == 0 && g_appends == 0 && o_ensure == 0, "and mints no name and changes nothing");
      VF_WITNESS ("second Hello refused");
    }
  else if (!limits_ok)
    {
      VF_ASSERT (!ok && err.name && strcmp (err.name, DBUS_ERROR_LIMITS_EXCEEDED) == 0 && conn.completes == 0 && g_appends == 0, "Hello over the connection limits mints nothing");
      VF_WITNESS ("Hello over the limit");
    }
  else
    {
      VF_ASSERT (conn.completes == 1, "the connection is given a name exactly once");
      VF_ASSERT (g_completed_with_major >= 1 && g_completed_with_minor >= 0, "a freshly minted one");
      if (complete_ok) VF_ASSERT (g_setsender_calls == 1 && o_setsender > o_complete, "the Hello message itself is re-stamped with the name just assigned (monitors must not see the not-active placeholder)");
      if (o_ensure) VF_ASSERT (o_complete > 0 && o_complete < o_ensure, "the name is registered only after the connection carries it");
      VF_ASSERT ((ok != 0) == (complete_ok && setsender_ok && welcome_ok && ensure_ok), "Hello succeeds exactly when every step does");
      if (!ok) VF_ASSERT (err.name != 0, "failure carries an error");
#ifdef VF_C14_HELLO
      /* C14: "reports out-of-memory, leaves all previously observable state exactly as it was ... and succeeds when retried".  Once bus_connection_complete
       * has succeeded the connection is active (named, counted); a later failing step (re-stamping, welcome message, registering the unique name) makes
       * Hello fail without un-completing it, and a retried Hello is refused with "Already handled an Hello message" (F18). */
      if (!ok) VF_FINDING (!complete_ok, "F18-hello-not-atomic-after-completion");
      if (!ok && complete_ok) VF_WITNESS_OPT ("Hello failed after the connection was completed");
#endif
      if (ok) VF_WITNESS ("Hello completed");
    }
#endif
}
