/* C04 — one-step refinement check of bus/services.c against the specification's
 * name-ownership state machine.  Pre-state: one name whose owner queue has
 * concrete length QN (each BusOwner / DBusList node / connection a separate
 * object); symbolic: which connection sits where (pairwise distinct), every
 * owner's flags, every connection's count of other owned names, the requester,
 * the full 32-bit flags word, the per-connection name limit and the own-policy
 * answer.  OP: 0 RequestName, 1 ReleaseName, 2 disconnect (remove_owner). */
#include "bus_env.h"
#include "/repo/bus/services.c"
#include "ref_names_sm.h"

#ifndef QN
#define QN 2
#endif
#ifndef OP
#define OP 0
#endif
#if QN == 0
#define W_EQ0(l) VF_WITNESS (l)
#else
#define W_EQ0(l) do { } while (0)
#endif
#if QN >= 1
#define W_GE1(l) VF_WITNESS (l)
#else
#define W_GE1(l) do { } while (0)
#endif
#if QN >= 2
#define W_GE2(l) VF_WITNESS (l)
#else
#define W_GE2(l) do { } while (0)
#endif

#include "services_env.h"
/* ---- pre-state objects ---- */
static BusRegistry reg; static struct DBusHashTable ht;
static BusService *svcp; static char *svc_name;
#define svc (*svcp)

static int same_events (const struct refev *ev, int nev)
{
  int i, j;
  if (nev != vf_nev) return 0;
  for (i = 0; i < nev && i < REFEV_MAX; i++)
    {
      int found = 0;
      for (j = 0; j < vf_nev; j++)
        if (vf_evlog[j].kind == ev[i].kind && vf_evlog[j].a == ev[i].a && (ev[i].kind != 3 || vf_evlog[j].b == ev[i].b)) found++;
      if (found != 1) return 0;
    }
  return 1;
}
/* does the real queue equal q (order, connections, flags)? */
static int same_queue (const struct refq *q)
{
  DBusString name; BusService *s; DBusList *l; int i;
  _dbus_string_init_const (&name, svc_name);
  s = bus_registry_lookup (&reg, &name);
  if (q->n == 0) return s == 0;
  if (s == 0) return 0;
  l = _dbus_list_get_first_link (&s->owners);
  for (i = 0; i < q->n; i++)
    {
      BusOwner *o;
      if (l == 0) return 0;
      o = l->data;
      if (o->conn != vf_conn[q->conn[i]] || o->allow_replacement != (unsigned) q->ar[i] || o->do_not_queue != (unsigned) q->dnq[i]) return 0;
      l = _dbus_list_get_next_link (&s->owners, l);
    }
  return l == 0;
}

void harness (void)
{
  /* every pre-state object is a separate heap object (R4) */
  BusOwner *ow[3] = { calloc (1, sizeof (BusOwner)), calloc (1, sizeof (BusOwner)), calloc (1, sizeof (BusOwner)) };
  DBusList *ln[3] = { calloc (1, sizeof (DBusList)), calloc (1, sizeof (DBusList)), calloc (1, sizeof (DBusList)) };
  struct refq q, q0, qconv; struct refev ev[REFEV_MAX]; int nev = 0;
  int extra[VF_NCONN], n_before[VF_NCONN];
  int i, j, c;
  DBusString name; DBusError err; dbus_uint32_t res = 99; dbus_bool_t ok;

  svcp = calloc (1, sizeof (BusService)); svc_name = malloc (4);
  VF_ASSUME (svcp && svc_name && ow[0] && ow[1] && ow[2] && ln[0] && ln[1] && ln[2]);
  svc_name[0] = 'a'; svc_name[1] = '.'; svc_name[2] = 'b'; svc_name[3] = 0;
  reg.refcount = 1; reg.context = (BusContext *) &reg; reg.service_hash = &ht; reg.service_pool = &vf_sp; reg.owner_pool = &vf_op;
  _dbus_string_init_const (&name, "a.b");
  q.n = QN;
  for (i = 0; i < VF_NCONN; i++) { extra[i] = vf_range (0, 100000); vf_conn[i]->n_owned = extra[i]; }
  if (QN > 0)
    {
      svc.refcount = 1; svc.registry = &reg; svc.name = svc_name; vf_sp.n = 1; vf_op.n = QN;
      for (i = 0; i < QN; i++)
        {
          q.conn[i] = vf_range (0, VF_NCONN - 1);
          for (j = 0; j < i; j++) VF_ASSUME (q.conn[j] != q.conn[i]);      /* representation invariant: a connection is queued once */
          q.ar[i] = vf_bool (); q.dnq[i] = vf_bool ();
          if (i > 0) VF_ASSUME (q.dnq[i] == 0);                             /* invariant: only the primary owner may have do_not_queue */
          ow[i]->refcount = 1; ow[i]->service = &svc; ow[i]->conn = vf_conn[q.conn[i]];
          ow[i]->allow_replacement = q.ar[i]; ow[i]->do_not_queue = q.dnq[i];
          vf_conn[q.conn[i]]->n_owned++;
          ln[i]->data = ow[i]; ln[i]->next = ln[(i + 1) % QN]; ln[i]->prev = ln[(i + QN - 1) % QN];
        }
      svc.owners = ln[0];
      ht.key[0] = svc_name; ht.val[0] = &svc; ht.used[0] = 1;
    }
  for (i = 0; i < VF_NCONN; i++) n_before[i] = vf_conn[i]->n_owned;
  q0 = q; qconv = q;
  c = vf_range (0, VF_NCONN - 1);
  dbus_error_init (&err);

#if OP == 0
  {
    dbus_uint32_t flags = vf_u32 ();
    int want, wantconv, nevc = 0; struct refev evc[REFEV_MAX];
    int re = (flags & 2) != 0, dnq = (flags & 4) != 0;
    cfg_limit = vf_range (1, 0x7fffffff);
    policy_allows_own = vf_bool ();
    ok = bus_registry_acquire_service (&reg, vf_conn[c], &name, flags, &res, (BusTransaction *) &reg, &err);
    if (!policy_allows_own)
      {
        VF_ASSERT (!ok && err.name && vf_err_is (err.name, DBUS_ERROR_ACCESS_DENIED), "denied own => AccessDenied");
        VF_ASSERT (same_queue (&q0) && vf_nev == 0 && vf_nhooks == 0, "denied RequestName changes nothing");
        VF_WITNESS ("own denied by policy");
      }
    else if (n_before[c] >= cfg_limit)
      {
        VF_ASSERT (!ok && err.name && vf_err_is (err.name, DBUS_ERROR_LIMITS_EXCEEDED), "at the names limit => LimitsExceeded");
        VF_ASSERT (same_queue (&q0) && vf_nev == 0 && vf_nhooks == 0, "refused RequestName changes nothing");
        VF_WITNESS ("limit reached");
      }
    else
      {
        int f1_dev;
        VF_ASSERT (ok && !err.name, "RequestName succeeds when permitted, below the limit and memory is available");
        vf_transaction_commit ();
        want = ref_request_name (&q, c, flags, ev, &nev, 0);
        wantconv = ref_request_name (&qconv, c, flags, evc, &nevc, 1);
        VF_ASSERT ((int) res == want && want == wantconv, "reply code equals the specification's");
        VF_ASSERT (same_events (ev, nev), "NameOwnerChanged / NameLost / NameAcquired are exactly the prescribed ones");
        /* F3: position of a REPLACE_EXISTING requester that cannot replace */
        f1_dev = (re && !dnq && want == 2 && QN >= 2);
        if (f1_dev)
          {
            VF_ASSERT (same_queue (&qconv), "queue equals the daemon's documented-by-code convention (RE waiter goes second)");
            VF_FINDING (same_queue (&q), "F3-replace-existing-waiter-jumps-queue");
          }
        else
          VF_ASSERT (same_queue (&q), "resulting queue (order, flags) equals the specification's");
        for (i = 0; i < VF_NCONN; i++)
          {
            int was = refq_find (&q0, i) >= 0, is = refq_find (&q, i) >= 0;
            VF_ASSERT (vf_conn[i]->n_owned == n_before[i] - was + is, "owned-name counters follow queue membership exactly");
            VF_ASSERT (vf_conn[i]->refs == 1, "no connection reference leaked");
          }
        for (i = 1; i < q.n; i++) VF_ASSERT (q.dnq[i] == 0, "reference invariant");
        if (QN >= 1 && want == 1) W_GE1 ("primary owner replaced");
        if (want == 2) W_GE1 ("queued");
        if (want == 3) W_GE1 ("EXISTS");
        if (want == 4) W_GE1 ("already owner");
        W_EQ0 ("fresh name");
      }
  }
#elif OP == 1
  {
    int want;
    ok = bus_registry_release_service (&reg, vf_conn[c], &name, &res, (BusTransaction *) &reg, &err);
    VF_ASSERT (ok && !err.name, "ReleaseName of a valid name succeeds");
    vf_transaction_commit ();
    want = ref_release_name (&q, c, ev, &nev);
    VF_ASSERT ((int) res == want, "ReleaseName reply code");
    VF_ASSERT (same_events (ev, nev), "signals on release are exactly the prescribed ones");
    VF_ASSERT (same_queue (&q), "queue after release");
    for (i = 0; i < VF_NCONN; i++)
      {
        int was = refq_find (&q0, i) >= 0, is = refq_find (&q, i) >= 0;
        VF_ASSERT (vf_conn[i]->n_owned == n_before[i] - was + is, "owned-name counters follow queue membership exactly");
        VF_ASSERT (vf_conn[i]->refs == 1, "no connection reference leaked");
      }
    if (want == 1) W_GE2 ("released with successor");
    if (want == 3) W_GE1 ("not owner");
    if (want == 2) W_EQ0 ("non-existent");
  }
#else
  {
    /* disconnect: connection.c calls bus_service_remove_owner for each owned service */
    int want;
    VF_ASSUME (refq_find (&q, c) >= 0);
    ok = bus_service_remove_owner (&svc, vf_conn[c], (BusTransaction *) &reg, &err);
    VF_ASSERT (ok && !err.name, "remove_owner succeeds");
    vf_transaction_commit ();
    want = ref_release_name (&q, c, ev, &nev);
    VF_ASSERT (want == 1, "reference");
    VF_ASSERT (same_events (ev, nev), "signals on disconnect are exactly the prescribed ones");
    VF_ASSERT (same_queue (&q), "queue after disconnect");
    for (i = 0; i < VF_NCONN; i++)
      {
        int was = refq_find (&q0, i) >= 0, is = refq_find (&q, i) >= 0;
        VF_ASSERT (vf_conn[i]->n_owned == n_before[i] - was + is, "owned-name counters follow queue membership exactly");
      }
    VF_WITNESS ("disconnect handled");
  }
#endif
  /* accessors agree with the state */
  {
    BusService *s = bus_registry_lookup (&reg, &name);
    VF_ASSERT ((s != 0) == (q.n > 0) || 0, "name exists iff its queue is non-empty (modulo F3 the membership is the same)");
    if (s)
      {
        VF_ASSERT (bus_service_get_primary_owners_connection (s) == vf_conn[q.conn[0]], "GetNameOwner agrees with the head of the queue");
        for (i = 0; i < VF_NCONN; i++)
          VF_ASSERT ((bus_service_owner_in_queue (s, vf_conn[i]) != 0) == (refq_find (&q, i) >= 0), "queue membership accessor agrees");
      }
  }
  VF_WITNESS ("end of harness reached");
}
