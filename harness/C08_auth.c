/* C08 — one step of the server side of the SASL handshake (real dbus-auth.c):
 * from an arbitrary server state satisfying invariant I, one symbolic command is
 * handled by the real state handlers / handle_auth / process_data / EXTERNAL and
 * ANONYMOUS mechanism functions / send_ok / send_rejected / shutdown_mech.
 * DBusString and DBusCredentials objects are ghost-modelled (lengths, "who was
 * copied into whom", kind of response emitted); credential comparisons return
 * solver-chosen answers that the assertions read.
 *   I:  state == waiting_for_begin  =>  an authorized identity is set
 *       state == waiting_for_auth   =>  no authorized identity, no identity string
 * Checked: I is inductive; AUTHENTICATED is entered only by BEGIN from
 * waiting_for_begin; OK is sent only when EXTERNAL found the requested identity
 * inside the socket credentials, or ANONYMOUS is an allowed mechanism; every
 * REJECTED forgets the identity and counts as a failure, and max_failures
 * failures disconnect; BEGIN anywhere else disconnects; the response kind follows
 * the specification's server state table. */
#include <config.h>
#undef DBUS_ENABLE_VERBOSE_MODE
#include <dbus/dbus-internals.h>
#include <stdlib.h>
#include <string.h>
#include <stdarg.h>
#include "vf.h"
#include "/repo/dbus/dbus-auth.c"

/* ---- ghost strings: dummy2 = length ---- */
#define LEN(s) (((DBusString *) (s))->dummy2)
static int n_rejected, n_ok, n_error, n_data, n_agree, str_oom;
dbus_bool_t _dbus_string_init (DBusString *s) { if (str_oom) return 0; LEN (s) = 0; return 1; }
void _dbus_string_free (DBusString *s) { }
int _dbus_string_get_length (const DBusString *s) { return LEN (s); }
const char *_dbus_string_get_const_data (const DBusString *s) { return "x"; }
dbus_bool_t _dbus_string_set_length (DBusString *s, int l) { LEN (s) = l; return 1; }
static void classify (const char *t)
{
  if (t[0] == 'R' && t[1] == 'E' && t[2] == 'J') n_rejected++;
  else if (t[0] == 'O' && t[1] == 'K') n_ok++;
  else if (t[0] == 'E' && t[1] == 'R') n_error++;
  else if (t[0] == 'D' && t[1] == 'A') n_data++;
  else if (t[0] == 'A' && t[1] == 'G') n_agree++;
}
dbus_bool_t _dbus_string_append (DBusString *s, const char *t) { if (str_oom) return 0; classify (t); LEN (s) += 1; return 1; }
dbus_bool_t _dbus_string_append_printf (DBusString *s, const char *f, ...) { if (str_oom) return 0; classify (f); LEN (s) += 1; return 1; }
dbus_bool_t _dbus_string_copy (const DBusString *src, int start, DBusString *dst, int at) { if (str_oom) return 0; LEN (dst) += LEN (src) - start; return 1; }
dbus_bool_t _dbus_string_copy_len (const DBusString *src, int start, int len, DBusString *dst, int at) { if (str_oom) return 0; LEN (dst) += len; return 1; }
dbus_bool_t _dbus_string_find_blank (const DBusString *s, int start, int *found) { int f = vf_range (0, 64); VF_ASSUME (f >= start && f <= LEN (s)); *found = f; return f < LEN (s); }
void _dbus_string_skip_blank (const DBusString *s, int start, int *end) { int e = vf_range (0, 64); VF_ASSUME (e >= start && e <= LEN (s)); *end = e; }
static int hex_ok, hex_len_out, hex_consumed_all;
dbus_bool_t _dbus_string_hex_decode (const DBusString *src, int start, int *end, DBusString *dst, int at)
{ if (!hex_ok) return 0; *end = hex_consumed_all ? LEN (src) : (LEN (src) > 0 ? LEN (src) - 1 : 0); LEN (dst) = hex_len_out; return 1; }
dbus_bool_t _dbus_string_hex_encode (const DBusString *src, int start, DBusString *dst, int at) { if (str_oom) return 0; LEN (dst) += 2 * LEN (src); return 1; }
dbus_bool_t _dbus_string_validate_utf8 (const DBusString *s, int start, int len) { return vf_bool (); }
/* mechanism name comparison: the client's choice is a ghost index */
static int client_mech, mech_allowed[3], have_allowed_list;
dbus_bool_t _dbus_string_equal_c_str (const DBusString *a, const char *c)
{ int i; for (i = 0; i < 3; i++) if (c == all_mechanisms[i].mechanism) return client_mech == i; return 0; }
dbus_bool_t _dbus_string_array_contains (const char **array, const char *str)
{ int i; for (i = 0; i < 3; i++) if (str == all_mechanisms[i].mechanism) return mech_allowed[i]; return client_mech < 3 ? mech_allowed[client_mech] : 0; }

/* ---- ghost credentials ---- */
struct DBusCredentials { int kind; };   /* identity of the object only */
static struct DBusCredentials c_socket = { 1 }, c_authorized = { 2 }, c_desired = { 3 };
static int socket_anonymous, authorized_set, authorized_from_desired, desired_kind /*0 empty,1 copy of socket,2 from user string*/, user_lookup_ok, user_lookup_oom, superset_answer, superset_asked, cred_oom;
dbus_bool_t _dbus_credentials_are_anonymous (DBusCredentials *c)
{ if (c == &c_socket) return socket_anonymous; if (c == &c_desired) return desired_kind == 0 || (desired_kind == 1 && socket_anonymous); return !authorized_set; }
void _dbus_credentials_clear (DBusCredentials *c) { if (c == &c_authorized) { authorized_set = 0; authorized_from_desired = 0; } if (c == &c_desired) desired_kind = 0; }
dbus_bool_t _dbus_credentials_add_credentials (DBusCredentials *dst, DBusCredentials *src)
{
  if (cred_oom) return 0;
  if (dst == &c_desired && src == &c_socket) desired_kind = 1;
  if (dst == &c_authorized) { authorized_set = 1; authorized_from_desired = (src == &c_desired); }
  return 1;
}
dbus_bool_t _dbus_credentials_add_credential (DBusCredentials *dst, DBusCredentialType which, DBusCredentials *src)
{ if (cred_oom) return 0; VF_ASSERT (src == &c_socket, "extra process information is copied from the socket credentials only"); if (dst == &c_authorized) authorized_set = 1; return 1; }
dbus_bool_t _dbus_credentials_add_from_user (DBusCredentials *c, const DBusString *u, DBusCredentialsAddFlags f, DBusError *e)
{ if (!user_lookup_ok) { e->name = user_lookup_oom ? DBUS_ERROR_NO_MEMORY : DBUS_ERROR_FAILED; e->message = "m"; return 0; } desired_kind = 2; return 1; }
dbus_bool_t _dbus_credentials_are_superset (DBusCredentials *a, DBusCredentials *b)
{ VF_ASSERT (a == &c_socket && b == &c_desired, "the requested identity is compared against the kernel-reported socket credentials"); superset_asked++; return desired_kind == 1 ? 1 : superset_answer; }
dbus_bool_t dbus_error_has_name (const DBusError *e, const char *n) { return e->name && strcmp (e->name, n) == 0; }
void dbus_error_free (DBusError *e) { e->name = 0; e->message = 0; }

void harness (void)
{
  static DBusAuthServer srv; DBusAuth *auth = &srv.base; static DBusString args;
  int st0 = vf_range (0, 2), cmd = vf_range (0, 9), failures0, authorized0;
  dbus_bool_t ok; const DBusAuthStateData *s0;
  auth->refcount = 1; auth->side = auth_side_server;
  auth->credentials = &c_socket; auth->authorized_identity = &c_authorized; auth->desired_identity = &c_desired;
  s0 = st0 == 0 ? &server_state_waiting_for_auth : st0 == 1 ? &server_state_waiting_for_data : &server_state_waiting_for_begin;
  auth->state = s0;
  srv.max_failures = vf_range (1, 100); srv.failures = failures0 = vf_range (0, 99); VF_ASSUME (failures0 < srv.max_failures);
  LEN (&srv.guid) = 32; LEN (&auth->outgoing) = vf_range (0, 1000); LEN (&auth->incoming) = 0;
  LEN (&auth->identity) = vf_range (0, 8);
  auth->already_asked_for_initial_response = vf_bool (); auth->unix_fd_possible = vf_bool (); auth->unix_fd_negotiated = 0;
  socket_anonymous = vf_bool (); authorized_set = authorized0 = vf_bool (); desired_kind = vf_range (0, 2);
  user_lookup_ok = vf_bool (); user_lookup_oom = vf_bool (); superset_answer = vf_bool (); cred_oom = vf_bool (); str_oom = vf_bool ();
  hex_ok = vf_bool (); hex_len_out = vf_range (0, 8); hex_consumed_all = vf_bool ();
  client_mech = vf_range (0, 3); have_allowed_list = vf_bool ();
  mech_allowed[0] = vf_bool (); mech_allowed[1] = vf_bool (); mech_allowed[2] = vf_bool ();
  auth->allowed_mechs = have_allowed_list ? (char **) &mech_allowed : 0;
  VF_ASSUME (client_mech != 1);                                        /* outside: DBUS_COOKIE_SHA1 (keyring, SHA-1) */
  LEN (&args) = vf_range (0, 64);
  /* invariant I on the pre-state */
  if (st0 == 2) VF_ASSUME (authorized_set);
  if (st0 == 0) { int m = vf_range (0, 2); VF_ASSUME (!authorized_set && LEN (&auth->identity) == 0); auth->mech = m == 0 ? 0 : &all_mechanisms[m == 1 ? 0 : 2]; /* a stale mechanism pointer may survive an ERROR reply */ }
  if (st0 == 1) { auth->mech = &all_mechanisms[0]; VF_ASSUME (!authorized_set); }   /* only EXTERNAL ever waits for data (it asked for the identity) */
  if (st0 == 2) auth->mech = &all_mechanisms[vf_bool () ? 0 : 2];

  ok = (*auth->state->handler) (auth, (DBusAuthCommand) cmd, &args);

  if (!ok) { VF_WITNESS_OPT ("handler ran out of memory"); }
  /* I is inductive */
  if (auth->state == &server_state_waiting_for_begin) VF_ASSERT (authorized_set, "waiting for BEGIN only with an authorized identity");
  if (auth->state == &server_state_waiting_for_data) VF_ASSERT (auth->mech == &all_mechanisms[0] && !authorized_set, "waiting for DATA only with the EXTERNAL mechanism selected (the next DATA line calls through auth->mech) and nothing authorized yet");
  if (auth->state == &server_state_waiting_for_begin) VF_ASSERT (auth->mech == &all_mechanisms[0] || auth->mech == &all_mechanisms[2], "waiting for BEGIN with the mechanism that succeeded still selected");
  if (auth->state == &server_state_waiting_for_auth && ok) VF_ASSERT (!authorized_set && LEN (&auth->identity) == 0, "back in waiting-for-AUTH no identity or authorization of an earlier attempt survives");
  /* authenticated only via BEGIN after OK */
  if (auth->state == &common_state_authenticated)
    {
      VF_ASSERT (st0 == 2 && cmd == DBUS_AUTH_COMMAND_BEGIN && authorized_set, "AUTHENTICATED is reached only by BEGIN after a successful mechanism");
      VF_WITNESS ("authenticated");
    }
  if (cmd == DBUS_AUTH_COMMAND_BEGIN && st0 != 2) VF_ASSERT (auth->state == &common_state_need_disconnect, "BEGIN before a successful mechanism disconnects the peer");
  /* OK only for a mechanism that passed */
  VF_ASSERT (n_ok <= 1 && n_rejected <= 1, "at most one verdict per command");
  if (n_ok)
    {
      VF_ASSERT (ok && auth->state == &server_state_waiting_for_begin && authorized_set, "OK moves to waiting-for-BEGIN with the identity recorded");
      VF_ASSERT (st0 != 2, "no second OK once a mechanism succeeded");
      VF_ASSERT ((cmd == DBUS_AUTH_COMMAND_AUTH && st0 == 0) || (cmd == DBUS_AUTH_COMMAND_DATA && st0 == 1), "OK answers AUTH or DATA only");
      if (auth->mech == &all_mechanisms[0])
        {
          VF_ASSERT (!socket_anonymous && superset_asked == 1 && (desired_kind == 1 || superset_answer) && authorized_from_desired == 0 + (authorized_set ? authorized_from_desired : 0), "EXTERNAL succeeds only when the requested identity is contained in the socket credentials");
          VF_ASSERT (desired_kind != 0, "and a non-empty identity was established");
          VF_WITNESS ("EXTERNAL accepted");
        }
      else
        {
          VF_ASSERT (auth->mech == &all_mechanisms[2], "otherwise it was ANONYMOUS");
          VF_ASSERT (!have_allowed_list || mech_allowed[2], "ANONYMOUS succeeds only where it is an allowed mechanism");
          VF_WITNESS ("ANONYMOUS accepted");
        }
    }
  /* REJECTED forgets everything and counts */
  if (n_rejected && ok)
    {
      VF_ASSERT (!authorized_set && LEN (&auth->identity) == 0 && auth->mech == 0 && desired_kind == 0, "REJECTED forgets identity, authorization and mechanism");
      VF_ASSERT (srv.failures == failures0 + 1, "each rejection counts as one failure");
      VF_ASSERT ((auth->state == &common_state_need_disconnect) == (srv.failures >= srv.max_failures), "the peer is disconnected after max_failures rejections");
      VF_ASSERT (auth->state == &common_state_need_disconnect || auth->state == &server_state_waiting_for_auth, "otherwise the exchange restarts");
      VF_WITNESS ("rejected");
    }
  if (!n_rejected) VF_ASSERT (srv.failures == failures0, "only rejections count as failures");
  /* response table (specification, "Server states") */
  if (ok && st0 == 0 && (cmd == DBUS_AUTH_COMMAND_CANCEL || cmd == DBUS_AUTH_COMMAND_DATA)) VF_ASSERT (n_error == 1 && auth->state == s0, "WaitingForAuth: CANCEL/DATA => ERROR");
  if (ok && st0 == 0 && cmd == DBUS_AUTH_COMMAND_ERROR) VF_ASSERT (n_rejected == 1, "WaitingForAuth: ERROR => REJECTED");
  if (ok && st0 == 1 && (cmd == DBUS_AUTH_COMMAND_CANCEL || cmd == DBUS_AUTH_COMMAND_ERROR)) VF_ASSERT (n_rejected == 1, "WaitingForData: CANCEL/ERROR => REJECTED");
  if (ok && st0 == 2 && (cmd == DBUS_AUTH_COMMAND_CANCEL || cmd == DBUS_AUTH_COMMAND_ERROR)) VF_ASSERT (n_rejected == 1, "WaitingForBegin: CANCEL/ERROR => REJECTED");
  if (ok && st0 != 0 && cmd == DBUS_AUTH_COMMAND_AUTH) VF_ASSERT (n_error == 1 && auth->state == s0 && n_ok == 0, "AUTH during an exchange => ERROR");
  if (ok && cmd == DBUS_AUTH_COMMAND_NEGOTIATE_UNIX_FD) VF_ASSERT (st0 == 2 ? (n_agree == (auth->unix_fd_possible ? 1 : 0) && n_error == (auth->unix_fd_possible ? 0 : 1)) : n_error == 1, "fd passing is agreed only after authentication and only where possible");
  if (auth->unix_fd_negotiated) VF_ASSERT (st0 == 2 && cmd == DBUS_AUTH_COMMAND_NEGOTIATE_UNIX_FD && auth->unix_fd_possible, "unix_fd_negotiated only via NEGOTIATE_UNIX_FD after OK");
  if (ok && (cmd == DBUS_AUTH_COMMAND_REJECTED || cmd == DBUS_AUTH_COMMAND_OK || cmd == DBUS_AUTH_COMMAND_UNKNOWN || cmd == DBUS_AUTH_COMMAND_AGREE_UNIX_FD)) VF_ASSERT (n_error == 1 && auth->state == s0, "unknown command => ERROR, state unchanged");
  VF_WITNESS ("end of harness reached");
}
