/* C06 (configuration reload) — call-order skeleton of the real process_config_every_time (bus/bus.c): when the configuration is
 * (re)loaded, the policies of the connections that already exist are rebuilt AFTER the context's policy object was replaced by
 * the newly parsed one (bus_context_create_client_policy reads context->policy), so that every later decision for an existing
 * connection is taken under the new rules; the old policy object is released exactly once. */
#include <config.h>
#undef DBUS_ENABLE_VERBOSE_MODE
#include <dbus/dbus-internals.h>
#include <stdlib.h>
#include <string.h>
#include "vf.h"
#include "/repo/bus/bus.c"
#define LEN(s) (((DBusString *) (s))->dummy2)
static int old_pol_tok, new_pol_tok, conns_tok, act_tok, unrefs_old, reloads, reload_saw_new, fail_at, calls;
static int sfail (void) { calls++; return fail_at && calls == fail_at; }
dbus_bool_t _dbus_string_init (DBusString *s) { if (sfail ()) return 0; LEN (s) = 0; return 1; }
void _dbus_string_free (DBusString *s) { }
int _dbus_string_get_length (const DBusString *s) { return LEN (s); }
dbus_bool_t _dbus_string_append (DBusString *s, const char *t) { if (sfail ()) return 0; LEN (s) += 1; return 1; }
dbus_bool_t _dbus_string_copy_data (const DBusString *s, char **out) { char *p; if (sfail ()) return 0; p = malloc (4); VF_ASSUME (p != 0); p[0] = 0; *out = p; return 1; }
void bus_config_parser_get_limits (BusConfigParser *p, BusLimits *l) { }
void bus_policy_unref (BusPolicy *p) { if (p == (BusPolicy *) &old_pol_tok) unrefs_old++; }
BusPolicy *bus_config_parser_steal_policy (BusConfigParser *p) { return (BusPolicy *) &new_pol_tok; }
static BusContext ctx;
dbus_bool_t bus_connections_reload_policy (BusConnections *c, DBusError *e)
{ reloads++; reload_saw_new = (ctx.policy == (BusPolicy *) &new_pol_tok); if (sfail ()) { e->name = DBUS_ERROR_NO_MEMORY; e->message = "m"; return 0; } return 1; }
char *dbus_server_get_address (DBusServer *s) { char *p; if (sfail ()) return 0; p = malloc (4); VF_ASSUME (p != 0); p[0] = 'a'; p[1] = 0; return p; }
DBusList **bus_config_parser_get_service_dirs (BusConfigParser *p) { static DBusList *d; return &d; }
const char *bus_config_parser_get_servicehelper (BusConfigParser *p) { return vf_bool () ? "h" : 0; }
char *_dbus_strdup (const char *s) { char *p; if (!s) return 0; if (sfail ()) return 0; p = malloc (4); VF_ASSUME (p != 0); p[0] = 0; return p; }
dbus_bool_t bus_activation_reload (BusActivation *a, const DBusString *addr, DBusList **dirs, DBusError *e) { if (sfail ()) { e->name = DBUS_ERROR_NO_MEMORY; e->message = "m"; return 0; } return 1; }
BusActivation *bus_activation_new (BusContext *c, const DBusString *addr, DBusList **dirs, DBusError *e) { if (sfail ()) { e->name = DBUS_ERROR_NO_MEMORY; e->message = "m"; return 0; } return (BusActivation *) &act_tok; }
void dbus_set_error (DBusError *e, const char *name, const char *fmt, ...) { if (e) { e->name = name; e->message = "m"; } }
void dbus_set_error_const (DBusError *e, const char *name, const char *msg) { if (e) { e->name = name; e->message = msg; } }
dbus_bool_t dbus_error_is_set (const DBusError *e) { return e->name != 0; }

void harness (void)
{
  DBusError err; dbus_bool_t ok, is_reload = vf_bool (); static DBusList srv; static int srv_tok;
  ctx.refcount = 1; ctx.policy = is_reload ? (BusPolicy *) &old_pol_tok : 0; ctx.connections = is_reload ? (BusConnections *) &conns_tok : 0; ctx.activation = is_reload ? (BusActivation *) &act_tok : 0;
  if (is_reload) { ctx.address = malloc (4); VF_ASSUME (ctx.address != 0); }
  if (vf_bool ()) { srv.data = &srv_tok; srv.next = srv.prev = &srv; ctx.servers = &srv; }
  fail_at = vf_range (0, 9); err.name = 0; err.message = 0;
  ok = process_config_every_time (&ctx, (BusConfigParser *) &srv_tok, is_reload, &err);
  VF_ASSERT (ctx.policy == (BusPolicy *) &new_pol_tok || calls == 1, "after (re)loading, the context decides under the newly parsed policy");
  if (is_reload && reloads) VF_ASSERT (reload_saw_new, "existing connections have their policies rebuilt from the NEW policy (the rebuild happens after the context's policy was replaced)");
  if (is_reload && ok) VF_ASSERT (reloads == 1 && unrefs_old == 1, "a successful reload rebuilds existing connections once and releases the old policy once");
  if (!is_reload) VF_ASSERT (reloads == 0, "at start-up there are no connections to rebuild");
  if (!ok) VF_ASSERT (err.name != 0, "failure carries an error");
  if (ok && is_reload) VF_WITNESS_OPT ("configuration reloaded");
  VF_WITNESS ("end of harness reached");
}
