/* Independent index-based decoder for D-Bus marshalled values, written from
 * doc/dbus-specification.xml, "Marshaling (Wire Format)":
 *  - every value is aligned to its natural boundary, counted from the start of
 *    the message body; "alignment padding must be zero-initialised";
 *  - BOOLEAN is a UINT32 and "only 0 and 1 are valid values";
 *  - STRING / OBJECT_PATH: UINT32 byte length, the bytes (valid UTF-8 without
 *    NUL / a valid object path), then a terminating NUL not counted in the length;
 *  - SIGNATURE: one length byte, a valid signature, terminating NUL;
 *  - ARRAY: UINT32 length in bytes of the element data (at most 2^26), padding to
 *    the element alignment (present even for an empty array), then elements that
 *    fill exactly that many bytes;
 *  - STRUCT / DICT_ENTRY: aligned to 8, then the fields in order;
 *  - VARIANT: a marshalled SIGNATURE holding exactly one complete type, padding
 *    to that type's alignment, then the value;
 *  - nothing may be left over after the last value of the body signature.
 * Values are reported into a flat log so that an independent reading of the same
 * bytes can be compared with what the library's reader returns. */
#ifndef REF_MARSHAL_H
#define REF_MARSHAL_H
#include "ref_names.h"

#define REF_MAXVALS 12
struct ref_val { int type; unsigned long long u; int str_off; int str_len; };
struct refdec
{
  const unsigned char *d; int len; int order; int pos;
  struct ref_val vals[REF_MAXVALS]; int nvals;      /* leaf values in document order (containers add a marker) */
};
static int ref_type_alignment (int c)
{
  switch (c)
    {
    case 'y': case 'g': case 'v': return 1;
    case 'n': case 'q': return 2;
    case 'b': case 'i': case 'u': case 'h': case 's': case 'o': case 'a': return 4;
    case 'x': case 't': case 'd': case '(': case '{': return 8;
    default: return 0;
    }
}
static unsigned long long ref_rd (const struct refdec *r, int at, int n)
{
  unsigned long long v = 0; int i;
  for (i = 0; i < n; i++)
    {
      unsigned long long b = r->d[at + i];
      if (r->order == 'l') v |= b << (8 * i); else v |= b << (8 * (n - 1 - i));
    }
  return v;
}
static int ref_align (struct refdec *r, int a)
{
  while (r->pos % a) { if (r->pos >= r->len) return 0; if (r->d[r->pos] != 0) return 0; r->pos++; }
  return 1;
}
static void ref_log (struct refdec *r, int type, unsigned long long u, int off, int len)
{
  if (r->nvals < REF_MAXVALS) { r->vals[r->nvals].type = type; r->vals[r->nvals].u = u; r->vals[r->nvals].str_off = off; r->vals[r->nvals].str_len = len; }
  r->nvals++;
}
/* length of the single complete type starting at sig[sp] (signature assumed valid) */
static int ref_type_len (const unsigned char *sig, int slen, int sp)
{
  int depth = 0, i = sp;
  while (i < slen)
    {
      unsigned char c = sig[i];
      if (c == 'a') { i++; continue; }
      if (c == '(' || c == '{') { depth++; i++; continue; }
      if (c == ')' || c == '}') { depth--; i++; if (depth == 0) break; continue; }
      i++;
      if (depth == 0) break;
    }
  return i - sp;
}
/* Decode the single complete type at sig[sp].  sp is passed by value and the
 * position in the signature only ever advances by ref_type_len(), a function of
 * the signature alone, so that it never depends on the data. */
static int ref_value (struct refdec *r, const unsigned char *sig, int slen, int sp, int depth)
{
  int c, n, sz;
  if (depth > 64) return 0;
  if (sp >= slen) return 0;
  c = sig[sp];
  switch (c)
    {
    case 'y':
      if (r->pos + 1 > r->len) return 0;
      ref_log (r, c, r->d[r->pos], 0, 0); r->pos += 1; return 1;
    case 'b': case 'n': case 'q': case 'i': case 'u': case 'h': case 'x': case 't': case 'd':
      sz = ref_type_alignment (c);
      if (!ref_align (r, sz)) return 0;
      if (r->pos + sz > r->len) return 0;
      { unsigned long long v = ref_rd (r, r->pos, sz);
        if (c == 'b' && v > 1) return 0;
        ref_log (r, c, v, 0, 0); }
      r->pos += sz; return 1;
    case 's': case 'o':
      {
        unsigned long long l;
        if (!ref_align (r, 4)) return 0;
        if (r->pos + 4 > r->len) return 0;
        l = ref_rd (r, r->pos, 4); r->pos += 4;
        if (l + 1 > (unsigned long long) (r->len - r->pos)) return 0;
        n = (int) l;
        if (c == 's') { if (!ref_valid_utf8 (r->d + r->pos, n)) return 0; }
        else { if (!ref_valid_path (r->d + r->pos, n)) return 0; }
        if (r->d[r->pos + n] != 0) return 0;
        ref_log (r, c, 0, r->pos, n);
        r->pos += n + 1; return 1;
      }
    case 'g':
      if (r->pos + 1 > r->len) return 0;
      n = r->d[r->pos]; r->pos += 1;
      if (n + 1 > r->len - r->pos) return 0;
      if (!ref_valid_signature (r->d + r->pos, n)) return 0;
      if (r->d[r->pos + n] != 0) return 0;
      ref_log (r, c, 0, r->pos, n);
      r->pos += n + 1; return 1;
    case 'a':
      {
        unsigned long long l; int end, esp = sp + 1, ea;
        if (esp >= slen) return 0;
        ea = ref_type_alignment (sig[esp]);
        if (ea == 0) return 0;
        if (!ref_align (r, 4)) return 0;
        if (r->pos + 4 > r->len) return 0;
        l = ref_rd (r, r->pos, 4); r->pos += 4;
        if (l > (1ULL << 26)) return 0;
        if (!ref_align (r, ea)) return 0;
        if (l > (unsigned long long) (r->len - r->pos)) return 0;
        end = r->pos + (int) l;
        ref_log (r, 'a', l, 0, 0);
        while (r->pos < end)
          if (!ref_value (r, sig, slen, esp, depth + 1)) return 0;
        if (r->pos != end) return 0;
        ref_log (r, 'A', 0, 0, 0);          /* end-of-array marker */
        return 1;
      }
    case '(': case '{':
      {
        int close = (c == '(') ? ')' : '}', fsp = sp + 1;
        if (!ref_align (r, 8)) return 0;
        ref_log (r, c, 0, 0, 0);
        while (fsp < slen && sig[fsp] != close)
          {
            if (!ref_value (r, sig, slen, fsp, depth + 1)) return 0;
            fsp += ref_type_len (sig, slen, fsp);
          }
        if (fsp >= slen) return 0;
        ref_log (r, close, 0, 0, 0);
        return 1;
      }
    case 'v':
      {
        const unsigned char *vs; int va;
        if (r->pos + 1 > r->len) return 0;
        n = r->d[r->pos]; r->pos += 1;
        if (n + 1 > r->len - r->pos) return 0;
        vs = r->d + r->pos;
        if (!ref_valid_single_signature (vs, n)) return 0;
        if (r->d[r->pos + n] != 0) return 0;
        ref_log (r, 'v', 0, r->pos, n);
        r->pos += n + 1;
        va = ref_type_alignment (vs[0]);
        if (va == 0 || !ref_align (r, va)) return 0;
        return ref_value (r, vs, n, 0, depth + 1);
      }
    default:
      return 0;
    }
}
/* the whole body: a sequence of complete types, consuming exactly len bytes */
static int ref_body_valid (struct refdec *r, const unsigned char *sig, int slen, const unsigned char *d, int len, int order)
{
  int sp = 0;
  r->d = d; r->len = len; r->order = order; r->pos = 0; r->nvals = 0;
  if (order != 'l' && order != 'B') return 0;
  while (sp < slen)
    {
      if (!ref_value (r, sig, slen, sp, 0)) return 0;
      sp += ref_type_len (sig, slen, sp);
    }
  return r->pos == len;
}
#endif
