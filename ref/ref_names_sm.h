/* Reference name-ownership state machine, transcribed from
 * doc/dbus-specification.xml, "org.freedesktop.DBus.RequestName":
 *
 *  "Each name maintains a queue of possible owners, where the head of the queue
 *   is the primary or current owner of the name. Each potential owner in the
 *   queue maintains the ALLOW_REPLACEMENT and DO_NOT_QUEUE settings from its
 *   latest RequestName call. When RequestName is invoked the following occurs:
 *   (1) If the method caller is currently the primary owner of the name, the
 *       [two flag] values are updated ... and nothing further happens.
 *   (2) If the current primary owner has ALLOW_REPLACEMENT set, and the
 *       RequestName invocation has the REPLACE_EXISTING flag, then the caller
 *       replaces the current primary owner at the head of the queue and the
 *       current primary owner moves to the second position in the queue. If the
 *       caller was in the queue previously its flags are updated ... in
 *       addition to moving it to the head of the queue.
 *   (3) If replacement is not possible, and the method caller is currently in
 *       the queue but not the primary owner, its flags are updated.
 *   (4) If replacement is not possible, and the method caller is currently not
 *       in the queue, the method caller is appended to the queue.
 *   (5) If any connection in the queue has DO_NOT_QUEUE set and is not the
 *       primary owner, it is removed from the queue. This can apply to the
 *       previous primary owner (if it was replaced) or the method caller."
 *  Reply codes: PRIMARY_OWNER 1, IN_QUEUE 2, EXISTS 3, ALREADY_OWNER 4.
 *  ReleaseName: RELEASED 1, NON_EXISTENT 2, NOT_OWNER 3.
 *  Signals: NameOwnerChanged(name, old, new) on every change of primary owner
 *  ("" for none), NameLost to the connection that stops being primary owner,
 *  NameAcquired to the one that becomes it.
 *
 *  Documented-by-code convention (finding F3, see known_findings.json): when
 *  replacement is NOT possible and REPLACE_EXISTING is set and DO_NOT_QUEUE is
 *  not, dbus-daemon places the caller directly behind the primary owner
 *  (position 2) instead of appending it / leaving it where it was.
 *  ref_request_name(..., convention=1) encodes that variant.
 */
#ifndef REF_NAMES_SM_H
#define REF_NAMES_SM_H
#define REFQ_MAX 5
struct refq { int n; int conn[REFQ_MAX]; int ar[REFQ_MAX]; int dnq[REFQ_MAX]; };
struct refev { int kind; int a; int b; };   /* 1 NameAcquired(a)  2 NameLost(a)  3 NameOwnerChanged(old=a,new=b), -1 = "" */
#define REFEV_MAX 6

static int refq_find (const struct refq *q, int c)
{ int i; for (i = 0; i < q->n; i++) if (q->conn[i] == c) return i; return -1; }
static void refq_remove_at (struct refq *q, int p)
{ int i; for (i = p; i + 1 < q->n; i++) { q->conn[i] = q->conn[i + 1]; q->ar[i] = q->ar[i + 1]; q->dnq[i] = q->dnq[i + 1]; } q->n--; }
static void refq_insert_at (struct refq *q, int p, int c, int ar, int dnq)
{ int i; for (i = q->n; i > p; i--) { q->conn[i] = q->conn[i - 1]; q->ar[i] = q->ar[i - 1]; q->dnq[i] = q->dnq[i - 1]; }
  q->conn[p] = c; q->ar[p] = ar; q->dnq[p] = dnq; q->n++; }
static void refev_add (struct refev *ev, int *nev, int k, int a, int b)
{ if (*nev < REFEV_MAX) { ev[*nev].kind = k; ev[*nev].a = a; ev[*nev].b = b; } (*nev)++; }

static int ref_request_name (struct refq *q, int c, unsigned flags, struct refev *ev, int *nev, int convention)
{
  int ar = (flags & 1) != 0, re = (flags & 2) != 0, dnq = (flags & 4) != 0;
  int pos = refq_find (q, c);
  if (q->n == 0)
    {
      refq_insert_at (q, 0, c, ar, dnq);
      refev_add (ev, nev, 3, -1, c);
      refev_add (ev, nev, 1, c, 0);
      return 1;
    }
  if (pos == 0)
    { q->ar[0] = ar; q->dnq[0] = dnq; return 4; }
  if (q->ar[0] && re)
    {
      int old = q->conn[0], old_dnq = q->dnq[0];
      if (pos > 0) refq_remove_at (q, pos);
      refq_insert_at (q, 0, c, ar, dnq);          /* old primary is now second */
      if (old_dnq) refq_remove_at (q, 1);         /* rule (5) */
      refev_add (ev, nev, 2, old, 0);
      refev_add (ev, nev, 3, old, c);
      refev_add (ev, nev, 1, c, 0);
      return 1;
    }
  if (dnq)
    { if (pos > 0) refq_remove_at (q, pos); return 3; }   /* rules (3)/(4) then (5) */
  if (pos > 0)
    {
      if (convention && re) { refq_remove_at (q, pos); refq_insert_at (q, 1, c, ar, dnq); }
      else { q->ar[pos] = ar; q->dnq[pos] = dnq; }
      return 2;
    }
  if (convention && re) refq_insert_at (q, 1, c, ar, dnq);
  else refq_insert_at (q, q->n, c, ar, dnq);
  return 2;
}

/* ReleaseName / disconnect of a connection for this name. exists = name has a queue */
static int ref_release_name (struct refq *q, int c, struct refev *ev, int *nev)
{
  int pos;
  if (q->n == 0) return 2;
  pos = refq_find (q, c);
  if (pos < 0) return 3;
  if (pos == 0)
    {
      refev_add (ev, nev, 2, c, 0);
      if (q->n > 1) { refev_add (ev, nev, 3, c, q->conn[1]); refev_add (ev, nev, 1, q->conn[1], 0); }
      else refev_add (ev, nev, 3, c, -1);
    }
  refq_remove_at (q, pos);
  return 1;
}
#endif
