/* Reference predicates written from doc/dbus-specification.xml, not from the
 * implementation.  Arrays and integers only.  Each cites the spec text it encodes.
 *
 * "Valid Names" (message-protocol-names):
 *  - Interface names: "composed of 2 or more elements separated by a period ('.')
 *    character. All elements must contain at least one character. Each element must
 *    only contain the ASCII characters "[A-Z][a-z][0-9]_" and must not begin with a
 *    digit. ... must not exceed the maximum name length" (255).
 *  - Bus names: "Bus names that start with a colon (':') character are unique
 *    connection names. Other bus names are called well-known bus names. Bus names are
 *    composed of 1 or more elements separated by a period ('.') character. All elements
 *    must contain at least one character. Each element must only contain the ASCII
 *    characters "[A-Z][a-z][0-9]_-" ... Only elements that are part of a unique
 *    connection name may begin with a digit, elements in other bus names must not begin
 *    with a digit. Bus names must contain at least one '.' (period) character (and thus
 *    at least two elements). Bus names must not begin with a '.' (period) character.
 *    Bus names must not exceed the maximum name length."
 *  - Member names: "Must only contain the ASCII characters "[A-Z][a-z][0-9]_" and may
 *    not begin with a digit. Must not contain the '.' (period) character. Must not
 *    exceed the maximum name length. Must be at least 1 byte in length."
 *  - Error names: "have the same restrictions as interface names".
 * "Valid Object Paths": "The path may be of any length. The path must begin with an
 *    ASCII '/' ... and must consist of elements separated by slash characters. Each
 *    element must only contain the ASCII characters "[A-Z][a-z][0-9]_". No element may
 *    be the empty string. Multiple '/' characters cannot occur in sequence. A trailing
 *    '/' character is not allowed unless the path is the root path (a single '/')."
 */
#ifndef REF_NAMES_H
#define REF_NAMES_H

#define REF_MAX_NAME 255

static int ref_alpha_ (unsigned char c) { return (c >= 'A' && c <= 'Z') || (c >= 'a' && c <= 'z') || c == '_'; }
static int ref_digit_ (unsigned char c) { return c >= '0' && c <= '9'; }

/* generic dotted-name recogniser.
 * first_ok(c): may begin an element; rest_ok(c): may continue one.  min_elems: 1 or 2. */
#define REF_DOTTED(NAME, FIRST_OK, REST_OK)                                             \
static int NAME (const unsigned char *s, int len, int min_elems)                        \
{                                                                                       \
  int i = 0, nelem = 0;                                                                 \
  if (len <= 0 || len > REF_MAX_NAME) return 0;                                         \
  for (;;)                                                                              \
    {                                                                                   \
      if (i >= len) return 0;              /* empty element (also trailing '.') */      \
      if (!(FIRST_OK (s[i]))) return 0;                                                 \
      i++;                                                                              \
      while (i < len && s[i] != '.')                                                    \
        { if (!(REST_OK (s[i]))) return 0; i++; }                                       \
      nelem++;                                                                          \
      if (i == len) break;                                                              \
      i++;                                 /* the '.' */                                \
    }                                                                                   \
  return nelem >= min_elems;                                                            \
}

#define REF_IFACE_FIRST(c) (ref_alpha_ (c))
#define REF_IFACE_REST(c) (ref_alpha_ (c) || ref_digit_ (c))
#define REF_BUS_FIRST(c) (ref_alpha_ (c) || (c) == '-')
#define REF_BUS_REST(c) (ref_alpha_ (c) || ref_digit_ (c) || (c) == '-')
REF_DOTTED (ref_dotted_iface_, REF_IFACE_FIRST, REF_IFACE_REST)
REF_DOTTED (ref_dotted_wkname_, REF_BUS_FIRST, REF_BUS_REST)
REF_DOTTED (ref_dotted_unique_, REF_BUS_REST, REF_BUS_REST)

static int ref_valid_interface (const unsigned char *s, int len) { return ref_dotted_iface_ (s, len, 2); }
static int ref_valid_error_name (const unsigned char *s, int len) { return ref_dotted_iface_ (s, len, 2); }

static int ref_valid_member (const unsigned char *s, int len)
{
  int i;
  if (len < 1 || len > REF_MAX_NAME) return 0;
  if (!ref_alpha_ (s[0])) return 0;
  for (i = 1; i < len; i++)
    if (!(ref_alpha_ (s[i]) || ref_digit_ (s[i]))) return 0;
  return 1;
}

/* The specification's bus-name grammar. */
static int ref_valid_bus_name_spec (const unsigned char *s, int len)
{
  if (len <= 0 || len > REF_MAX_NAME) return 0;
  if (s[0] == ':')
    return ref_dotted_unique_ (s + 1, len - 1, 2);
  return ref_dotted_wkname_ (s, len, 2);
}

/* Finding F1: what libdbus (deliberately, see valid_unique_names[] in
 * test/internals/dbus-marshal-validate-util.c) accepts after a leading ':':
 * any run of name characters and dots in which every dot is followed by a
 * name character — i.e. the ">= 2 elements" and "first element non-empty"
 * requirements are dropped for unique names. */
static int ref_unique_name_lenient (const unsigned char *s, int len)
{
  int i;
  if (len <= 0 || len > REF_MAX_NAME || s[0] != ':') return 0;
  for (i = 1; i < len; i++)
    {
      if (s[i] == '.')
        { if (i + 1 >= len || !(REF_BUS_REST (s[i + 1]))) return 0; }
      else if (!(REF_BUS_REST (s[i]))) return 0;
    }
  return 1;
}

/* arg0namespace values (match rules): "a bus name or a prefix of one with one
 * or more elements" — well-known syntax with min 1 element; a unique-name
 * namespace is whatever F1's lenient set is. */
static int ref_valid_bus_namespace_wk (const unsigned char *s, int len) { return ref_dotted_wkname_ (s, len, 1); }

static int ref_valid_path (const unsigned char *s, int len)
{
  int i, elem_len = 0;
  if (len < 1) return 0;
  if (s[0] != '/') return 0;
  if (len == 1) return 1;
  for (i = 1; i < len; i++)
    {
      if (s[i] == '/')
        { if (elem_len == 0) return 0; elem_len = 0; }
      else
        { if (!(ref_alpha_ (s[i]) || ref_digit_ (s[i]))) return 0; elem_len++; }
    }
  return elem_len > 0;   /* no trailing slash */
}

/* UTF-8 per RFC 3629 / Unicode table 3-7 ("Well-Formed UTF-8 Byte Sequences"),
 * plus the D-Bus rule that STRING values contain no U+0000.  Returns the
 * length of the longest prefix made of complete well-formed sequences. */
static int ref_utf8_valid_prefix (const unsigned char *s, int len)
{
  int i = 0;
  while (i < len)
    {
      unsigned char c = s[i];
      int need; unsigned char lo = 0x80, hi = 0xBF;
      if (c == 0) break;
      if (c < 0x80) { i++; continue; }
      else if (c >= 0xC2 && c <= 0xDF) need = 1;
      else if (c == 0xE0) { need = 2; lo = 0xA0; }
      else if (c >= 0xE1 && c <= 0xEC) need = 2;
      else if (c == 0xED) { need = 2; hi = 0x9F; }
      else if (c >= 0xEE && c <= 0xEF) need = 2;
      else if (c == 0xF0) { need = 3; lo = 0x90; }
      else if (c >= 0xF1 && c <= 0xF3) need = 3;
      else if (c == 0xF4) { need = 3; hi = 0x8F; }
      else break;
      if (i + 1 + need > len) break;
      if (s[i + 1] < lo || s[i + 1] > hi) break;
      if (need >= 2 && (s[i + 2] < 0x80 || s[i + 2] > 0xBF)) break;
      if (need >= 3 && (s[i + 3] < 0x80 || s[i + 3] > 0xBF)) break;
      i += 1 + need;
    }
  return i;
}
static int ref_valid_utf8 (const unsigned char *s, int len) { return ref_utf8_valid_prefix (s, len) == len; }

/* Type signatures ("Type System" chapter): a signature is zero or more single
 * complete types; complete type = basic | 'v' | 'a' complete | '(' complete+ ')'
 * | 'a' '{' basic complete '}' (dict entries only as array element type, key
 * basic, exactly two fields); length <= 255; at most 32 nested arrays and 32
 * nested structs. */
static int ref_sig_basic_ (unsigned char c)
{
  return c == 'y' || c == 'b' || c == 'n' || c == 'q' || c == 'i' || c == 'u' || c == 'x' || c == 't' ||
         c == 'd' || c == 's' || c == 'o' || c == 'g' || c == 'h';
}
#define REF_SIG_STACK 80
/* returns number of complete types at top level, or -1 if invalid */
static int ref_signature_count (const unsigned char *s, int len)
{
  unsigned char kind[REF_SIG_STACK]; int cnt[REF_SIG_STACK]; int sp = 0, i, top_count = 0, na = 0, ns = 0;
  if (len < 0 || len > 255) return -1;
  for (i = 0; i < len; i++)
    {
      unsigned char c = s[i];
      int complete = 0;
      int in_key_pos = (sp > 0 && kind[sp - 1] == '{' && cnt[sp - 1] == 0);
      if (ref_sig_basic_ (c)) complete = 1;
      else if (c == 'v') { if (in_key_pos) return -1; complete = 1; }
      else if (c == 'a')
        { if (in_key_pos) return -1; if (sp >= REF_SIG_STACK) return -1; kind[sp] = 'a'; cnt[sp] = 0; sp++; if (++na > 32) return -1; }
      else if (c == '(')
        { if (in_key_pos) return -1; if (sp >= REF_SIG_STACK) return -1; kind[sp] = '('; cnt[sp] = 0; sp++; if (++ns > 32) return -1; }
      else if (c == ')')
        { if (sp == 0 || kind[sp - 1] != '(' || cnt[sp - 1] == 0) return -1; sp--; ns--; complete = 1; }
      else if (c == '{')
        { if (sp == 0 || kind[sp - 1] != 'a') return -1; if (sp >= REF_SIG_STACK) return -1; kind[sp] = '{'; cnt[sp] = 0; sp++; }
      else if (c == '}')
        { if (sp == 0 || kind[sp - 1] != '{' || cnt[sp - 1] != 2) return -1; sp--; complete = 1; }
      else return -1;
      if (complete)
        {
          while (sp > 0 && kind[sp - 1] == 'a') { sp--; na--; }
          if (sp > 0) cnt[sp - 1]++; else top_count++;
        }
    }
  if (sp != 0) return -1;
  return top_count;
}
static int ref_valid_signature (const unsigned char *s, int len) { return ref_signature_count (s, len) >= 0; }
static int ref_valid_single_signature (const unsigned char *s, int len) { return ref_signature_count (s, len) == 1; }

#endif
