/* Reference match-rule semantics, from doc/dbus-specification.xml "Match Rules":
 *  type / interface / member / path: exact ("If a message omits the interface
 *    header, it must not match any rule that specifies this key"; same reading
 *    for member and path);
 *  sender: "Match messages sent by a particular sender" — the sender connection is
 *    the (primary) owner of the name; messages from the bus itself have sender
 *    org.freedesktop.DBus;
 *  destination: "messages which are being sent to the given unique name";
 *  path_namespace: "the object path is either the given value, or that value
 *    followed by one or more path components" ('/com/example/foo' matches
 *    '/com/example/foo' and '/com/example/foo/bar', not '/com/example/foobar');
 *  argN: "Only arguments of type STRING can be matched in this way", exact;
 *  argNpath: "arguments whose type is either STRING or OBJECT_PATH ... if the
 *    argument is exactly equal ... Additionally, there is also a match when either
 *    the string given in the match rule or the appropriate message argument ends
 *    with '/' and is a prefix of the other";
 *  arg0namespace: first argument "is of type STRING, and is a bus name or interface
 *    name within the specified namespace" (equal, or the value followed by '.');
 *  eavesdrop: "match rules do not match messages which have a DESTINATION field
 *    unless the match rule specifically requests this by eavesdrop='true'".
 */
#ifndef REF_MATCH_H
#define REF_MATCH_H
struct ref_mrule
{
  unsigned flags;      /* 1 type,2 iface,4 member,8 sender,16 dest,32 path,64 args,128 path_ns,256 eavesdrop */
  int mtype; const char *iface, *member, *sender, *dest, *path;
  int nargs; const char *arg[3]; int arg_len[3]; int arg_kind[3];   /* kind 0 exact,1 path,2 namespace; arg NULL = not constrained */
  /* environment answers */
  int sender_is_owner;      /* the sending connection is primary owner of rule->sender */
  int recipient_is_owner;   /* the addressed recipient is primary owner of rule->dest */
};
struct ref_marg { int type; /* 's','o', other, 0 = none */ const char *val; int len; };
static int ref_m_streq (const char *a, const char *b) { int i; for (i = 0; ; i++) { if (a[i] != b[i]) return 0; if (!a[i]) return 1; } }
static int ref_m_strlen (const char *a) { int i = 0; while (a[i]) i++; return i; }
static int ref_m_prefix (const char *s, int slen, const char *pre, int plen)
{ int i; if (plen > slen) return 0; for (i = 0; i < plen; i++) if (s[i] != pre[i]) return 0; return 1; }

static int ref_rule_matches (const struct ref_mrule *r, int have_sender_conn, int have_addressed,
                             int m_type, const char *m_iface, const char *m_member, const char *m_path, const char *m_dest,
                             const struct ref_marg *margs, int n_margs)
{
  int eaves = (r->flags & 256) != 0;
  int i;
  if ((r->flags & 1) && r->mtype != m_type) return 0;
  if ((r->flags & 2) && !(m_iface && ref_m_streq (m_iface, r->iface))) return 0;
  if ((r->flags & 4) && !(m_member && ref_m_streq (m_member, r->member))) return 0;
  if (r->flags & 8)
    {
      if (!have_sender_conn) { if (!ref_m_streq (r->sender, "org.freedesktop.DBus")) return 0; }
      else if (!r->sender_is_owner) return 0;
    }
  if (m_dest != 0 && !eaves) return 0;            /* unicast is only seen by eavesdroppers */
  if (r->flags & 16)
    {
      if (m_dest == 0) return 0;
      if (!have_addressed) { if (!ref_m_streq (r->dest, m_dest)) return 0; }
      else if (!r->recipient_is_owner) return 0;
    }
  if ((r->flags & 32) && !(m_path && ref_m_streq (m_path, r->path))) return 0;
  if (r->flags & 128)
    {
      int pl, vl;
      if (!m_path) return 0;
      pl = ref_m_strlen (m_path); vl = ref_m_strlen (r->path);
      if (!ref_m_prefix (m_path, pl, r->path, vl)) return 0;
      if (!(vl == 1 /* "/" */ || pl == vl || m_path[vl] == '/')) return 0;
    }
  if (r->flags & 64)
    for (i = 0; i < r->nargs; i++)
      {
        const struct ref_marg *a;
        if (r->arg[i] == 0) continue;
        if (i >= n_margs) return 0;
        a = &margs[i];
        if (r->arg_kind[i] == 1)
          {
            int el = r->arg_len[i], al = a->len;
            if (a->type != 's' && a->type != 'o') return 0;
            if (el == al && ref_m_prefix (a->val, al, r->arg[i], el)) continue;                                   /* equal */
            if (el > 0 && r->arg[i][el - 1] == '/' && ref_m_prefix (a->val, al, r->arg[i], el)) continue;        /* rule value is a directory prefix of the argument */
            if (al > 0 && a->val[al - 1] == '/' && ref_m_prefix (r->arg[i], el, a->val, al)) continue;           /* argument is a directory prefix of the rule value */
            return 0;
          }
        else if (r->arg_kind[i] == 2)
          {
            int el = r->arg_len[i], al = a->len;
            if (a->type != 's') return 0;
            if (!ref_m_prefix (a->val, al, r->arg[i], el)) return 0;
            if (!(al == el || a->val[el] == '.')) return 0;
          }
        else
          {
            if (a->type != 's') return 0;
            if (!(a->len == r->arg_len[i] && ref_m_prefix (a->val, a->len, r->arg[i], r->arg_len[i]))) return 0;
          }
      }
  return 1;
}
#endif
