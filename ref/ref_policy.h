/* Reference evaluation of <allow>/<deny> rules, transcribed from
 * doc/dbus-daemon.1.xml.in (section on <allow>/<deny>):
 *  - "the last rule that matches decides"; nothing is allowed by default;
 *  - a rule matches when every attribute it specifies matches;
 *  - send_interface/receive_interface: "the interface field in messages is
 *    optional ... a <deny> rule with an interface matches messages without an
 *    interface, an <allow> rule does not";
 *  - path / member / error attributes are only compared when the message has the field;
 *  - eavesdrop: "for <allow>, eavesdrop=true means the rule matches even when
 *    eavesdropping, false (default) means it does not match when eavesdropping;
 *    for <deny>, eavesdrop=true means the rule matches only when eavesdropping,
 *    false means it always matches";
 *  - [send|receive]_requested_reply: "for <allow>, true (default) means the rule
 *    matches only requested replies, false any reply; for <deny>, false (default)
 *    means the rule matches only unrequested replies, true always";
 *    (an <allow ... eavesdrop=true> also applies to unrequested replies, as the
 *    manual's eavesdrop text says "matches even when eavesdropping");
 *  - send_broadcast true/false: broadcast = signal without destination;
 *  - send_destination: the receiver owns (primary or queued) the name, or, when
 *    there is no receiver connection (bus driver, activation), the destination
 *    field equals the name;  send_destination_prefix: same with dot-separated
 *    prefix ("a.b" matches "a.b", "a.b.c", not "a.bc");
 *  - receive_sender: likewise for the sender;
 *  - min_fds/max_fds: number of attached fds within range;
 *  - own / own_prefix: name equal / dot-prefix; own="*" (NULL) matches any.
 */
#ifndef REF_POLICY_H
#define REF_POLICY_H
struct ref_rule
{
  int kind;            /* 0 send, 1 receive, 2 own, 3 other */
  int allow;
  int mtype;           /* 0 = any */
  const char *path, *iface, *member, *err, *peer;   /* peer = destination / origin / own name */
  unsigned minf, maxf;
  int eaves, reqrep, bcast /*0 any,1 false,2 true*/, isprefix;
  /* environment answers for this rule's peer name (same symbols the stubs return) */
  int svc_exists, conn_in_queue, conn_owns_by_prefix, conn_is_primary;
};
struct ref_msg
{
  int type; unsigned reply_serial, nfds;
  const char *path, *iface, *member, *err, *dest, *sender;
};
static int ref_pol_streq (const char *a, const char *b)
{ int i; for (i = 0; ; i++) { if (a[i] != b[i]) return 0; if (!a[i]) return 1; } }
static int ref_pol_prefix_words (const char *name, const char *pre)
{ int i = 0; while (pre[i]) { if (name[i] != pre[i]) return 0; i++; } return name[i] == 0 || name[i] == '.'; }
#define REF_MAX_FDS 1024 /* DBUS_MAXIMUM_MESSAGE_UNIX_FDS is (DBUS_MAXIMUM_MESSAGE_LENGTH/4): checked in harness */

static int ref_common_match (const struct ref_rule *r, const struct ref_msg *m, int requested_reply, unsigned max_fds_const)
{
  if (r->mtype != 0 && r->mtype != m->type) return 0;
  if (m->reply_serial != 0)
    {
      if (r->allow) { if (r->reqrep && !requested_reply && !r->eaves) return 0; }
      else { if (!r->reqrep && requested_reply) return 0; }
    }
  if (r->path && m->path && !ref_pol_streq (m->path, r->path)) return 0;
  if (r->iface)
    {
      if (!m->iface) { if (r->allow) return 0; }
      else if (!ref_pol_streq (m->iface, r->iface)) return 0;
    }
  if (r->member && m->member && !ref_pol_streq (m->member, r->member)) return 0;
  if (r->err && m->err && !ref_pol_streq (m->err, r->err)) return 0;
  if (r->minf > 0 || r->maxf < max_fds_const)
    if (m->nfds < r->minf || m->nfds > r->maxf) return 0;
  return 1;
}
static int ref_send_match (const struct ref_rule *r, const struct ref_msg *m, int requested_reply, int have_receiver, unsigned max_fds_const)
{
  if (r->kind != 0) return 0;
  if (!ref_common_match (r, m, requested_reply, max_fds_const)) return 0;
  if (r->bcast != 0)
    {
      int is_b = (m->dest == 0 && m->type == 4);
      if (is_b && r->bcast == 1) return 0;
      if (!is_b && r->bcast == 2) return 0;
    }
  if (r->peer && !r->isprefix)
    {
      if (!have_receiver) { if (!(m->dest && ref_pol_streq (m->dest, r->peer))) return 0; }
      else if (!(r->svc_exists && r->conn_in_queue)) return 0;
    }
  if (r->peer && r->isprefix)
    {
      if (!have_receiver) { if (!(m->dest && ref_pol_prefix_words (m->dest, r->peer))) return 0; }
      else if (!r->conn_owns_by_prefix) return 0;
    }
  return 1;
}
static int ref_recv_match (const struct ref_rule *r, const struct ref_msg *m, int requested_reply, int have_sender, int eavesdropping, unsigned max_fds_const)
{
  if (r->kind != 1) return 0;
  if (r->allow) { if (eavesdropping && !r->eaves) return 0; }
  else { if (!eavesdropping && r->eaves) return 0; }
  if (!ref_common_match (r, m, requested_reply, max_fds_const)) return 0;
  if (r->peer)
    {
      if (!have_sender) { if (!(m->sender && ref_pol_streq (m->sender, r->peer))) return 0; }
      else if (!(r->svc_exists && r->conn_in_queue)) return 0;
    }
  return 1;
}
static int ref_own_match (const struct ref_rule *r, const char *name)
{
  if (r->kind != 2) return 0;
  if (r->peer == 0) return 1;                 /* own="*" */
  if (r->isprefix) return ref_pol_prefix_words (name, r->peer);
  return ref_pol_streq (name, r->peer);
}
#endif
